"""Properties that are not claimed, with the reason (DESIGN.md section 6)."""
NOT_APPLICABLE = {
    "C06": "quantifies over task schedules of whole client+broker programs; Kani has no executor or concurrency model and one broker handler already costs minutes of symbolic execution",
    "C08": "the message parsers (deserialize_message) advance a bytes::BytesMut once per field; measured with Kani/CBMC: one parse of the 5-byte Shutdown frame 3 s, of the 6-byte Sync frame 400-600 s, every larger frame > 15 min, and the serializer side runs out of memory (14 GB) for every frame above ~40 bytes (two ids or several full-width varints) - the round trip and the strict-parsing half of the property cannot be decided and the decidable rest (wire layout of the small message kinds) does not carry it. The generated harnesses (harness/core/messages_gen.rs, tools/gen_messages.py) stay in the tree, unregistered",
    "C15": "fault injection at every transport operation of the async client run loop combined with task schedules; needs an executor and the whole client (std HashMap, mpsc, oneshot) - out of reach of bounded symbolic execution",
    "C16": "quantifies over schemas and runs rustc/proc-macros on generated code; programs cannot be made symbolic",
    "C17": "pest parser, comrak markdown and String processing over arbitrary source text: input-length loops over heap strings, no bounded kernel carries the property",
    "C18": "formatter/parser over arbitrary source text (see C17); no bounded kernel carries the property",
    "C19": "convergence of client-side views under schedules of the real async client and broker; fold kernels sit on std HashMap in the aldrin crate",
    "C20": "type ids are UUIDv5 (SHA-1) over BTreeMap/String-based serializations; 'equal iff layouts equal' is injectivity modulo SHA-1, which no SAT query in reach decides",
}
PENDING = {}
