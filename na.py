"""Properties that are not claimed, with the reason (DESIGN.md section 6)."""
NOT_APPLICABLE = {
    "C06": "quantifies over task schedules of whole client+broker programs; Kani has no executor or concurrency model and one broker handler already costs minutes of symbolic execution",
    "C15": "fault injection at every transport operation of the async client run loop combined with task schedules; needs an executor and the whole client (std HashMap, mpsc, oneshot) - out of reach of bounded symbolic execution",
    "C16": "quantifies over schemas and runs rustc/proc-macros on generated code; programs cannot be made symbolic",
    "C17": "pest parser, comrak markdown and String processing over arbitrary source text: input-length loops over heap strings, no bounded kernel carries the property",
    "C18": "formatter/parser over arbitrary source text (see C17); no bounded kernel carries the property",
    "C19": "convergence of client-side views under schedules of the real async client and broker; fold kernels sit on std HashMap in the aldrin crate",
    "C20": "type ids are UUIDv5 (SHA-1) over BTreeMap/String-based serializations; 'equal iff layouts equal' is injectivity modulo SHA-1, which no SAT query in reach decides",
}
# planned in DESIGN.md, harnesses not registered yet (kept here so MANIFEST.json stays complete)
PENDING = {
    "C01": "planned (DESIGN.md section 3); harnesses not registered yet in this revision",
    "C02": "planned (DESIGN.md section 3); harnesses not registered yet in this revision",
    "C03": "planned (DESIGN.md section 3); harnesses not registered yet in this revision",
    "C04": "planned (DESIGN.md section 3); harnesses not registered yet in this revision",
    "C07": "planned (DESIGN.md section 3); harnesses not registered yet in this revision",
    "C10": "planned (DESIGN.md section 3); harnesses not registered yet in this revision",
    "C11": "planned (DESIGN.md section 3); harnesses not registered yet in this revision",
    "C13": "planned (DESIGN.md section 3); harnesses not registered yet in this revision",
}
