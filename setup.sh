#!/bin/bash
# Offline setup: nothing to fetch. Warm the Kani build caches of the two crates from /repo.
set -u
cd "$(dirname "$0")"
mkdir -p .cache/out evidence replay
export CARGO_NET_OFFLINE=true
for c in aldrin-core aldrin-broker; do
  (cd /repo && cargo kani -p $c --target-dir /verif/.cache/$c -Z unstable-options -Z stubbing --only-codegen --harness zz_warmup_no_such_harness >/verif/.cache/out/setup-$c.log 2>&1) || true
done
echo "setup done"
