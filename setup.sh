#!/bin/bash
# Offline setup: nothing to fetch. Pre-builds the Kani target directories of the quick-tier units
# (one per unit: dependencies + the crate itself), so that a quick check only recompiles the crates
# of /repo whose sources changed. Failures here are not fatal: every check rebuilds what it needs.
set -u
cd "$(dirname "$0")"
mkdir -p .cache/out evidence replay
export CARGO_NET_OFFLINE=true
python3 - <<'PY' > .cache/setup-units.txt
import sys
sys.path.insert(0, "/verif")
from props import PROPS
seen = []
for pid, p in PROPS.items():
    for crate, unit in p["units"]["quick"]:
        if (crate, unit) not in seen:
            seen.append((crate, unit))
for crate, unit in seen:
    print(crate, unit)
PY
N=0
while read -r crate unit; do
  ( ./check --warm "$crate" "$unit" > ".cache/out/setup-$crate-$unit.log" 2>&1 || true ) &
  N=$((N+1))
  if [ $((N % 4)) -eq 0 ]; then wait; fi
done < .cache/setup-units.txt
wait
echo "setup done ($N units warmed)"
