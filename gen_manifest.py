#!/usr/bin/env python3
"""Regenerates MANIFEST.json from props.py (claimed checks) and na.py (not applicable)."""
import json, os, subprocess, sys
sys.path.insert(0, os.path.dirname(os.path.abspath(__file__)))
from props import PROPS
from na import NOT_APPLICABLE, PENDING

def hook_commits():
    try:
        out = subprocess.run(["git", "-C", "/repo", "log", "--format=%H %s"], capture_output=True, text=True).stdout
        return [l.split()[0] for l in out.splitlines() if l.split(" ", 1)[1].startswith("verif hook")]
    except Exception:
        return []

checks = []
for pid in sorted(PROPS):
    p = PROPS[pid]
    checks.append(dict(
        property_id=pid,
        quick_cmd=f"./check {pid} --tier quick",
        thorough_cmd=f"./check {pid} --tier thorough",
        evidence_file=f"/verif/evidence/{pid}.json",
        replay_cmd_template=f"./check {pid} --replay {{path}}",
        engine="kani-cbmc",
        level_claimed=dict(category=p["level"], text=p["level_text"], design_ref=p.get("design_ref", "DESIGN.md section 3")),
        level_note=p["level_note"],
        technique=p.get("technique", "bounded model checking of the compiled Rust code (Kani 0.68 -> CBMC 6.11 -> CaDiCaL): symbolic inputs/pre-states, unwinding assertions on, solver verdict per harness"),
    ))
na = [dict(property_id=k, reason=v) for k, v in sorted(NOT_APPLICABLE.items())]
na += [dict(property_id=k, reason=v) for k, v in sorted(PENDING.items()) if k not in PROPS]
m = dict(
    version=1,
    setup_cmd="./setup.sh",
    hooks=dict(
        guard="cfg(kani)",
        enable="cargo kani sets --cfg kani itself; harness modules are pulled in by `#[cfg(kani)] #[path = \"/verif/harness/...\"] mod verif;` lines",
        baseline_off_cmd="cd /repo && cargo nextest run --workspace --no-fail-fast --tool-config-file pb:/w/lib/nextest.toml --profile pb --test-threads 8 --offline || (cd /repo && cargo test --workspace --no-fail-fast --offline)",
        source_commits=hook_commits(),
        add_only=True,
    ),
    engines=[dict(name="kani-cbmc", path="/verif/check", serves_properties=sorted(PROPS),
                  kind_free_text="Kani 0.68.0 proof harnesses (in /verif/harness, compiled into the crates under cfg(kani)) decided by CBMC 6.11.0 + CaDiCaL; runner ./check builds from /repo's working tree on every run")],
    checks=checks,
    notes="exit 0 = every harness of the property proved (unwinding assertions on, cover witnesses satisfied); exit 1 = counterexample reproduced natively (VIOLATION line); exit 2 = inconclusive (timeout / out of memory / does not compile / vacuous) - never reported as success. See DESIGN.md.",
    not_applicable=na,
)
json.dump(m, open(os.path.join(os.path.dirname(os.path.abspath(__file__)), "MANIFEST.json"), "w"), indent=1)
print("MANIFEST.json:", len(checks), "checks,", len(na), "not applicable")
