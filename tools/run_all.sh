#!/bin/bash
# usage: tools/run_all.sh quick|thorough [ids...]; runs the checks one after another, logs under .cache/logs
TIER=${1:-quick}; shift
cd /verif; mkdir -p .cache/logs
IDS=${@:-C12 C05 C09 C01 C07 C13 C02 C03 C04 C10 C11 C08 C14}
for id in $IDS; do
  t0=$(date +%s)
  ./check $id --tier $TIER > .cache/logs/$id-$TIER.log 2>&1; rc=$?
  echo "$id $TIER rc=$rc wall=$(( $(date +%s) - t0 ))s $(tail -1 .cache/logs/$id-$TIER.log)"
done
