#!/usr/bin/env python3
"""harness_counts.json <- number of harnesses in the current evidence files (after a clean run of a tier)."""
import json, glob, os, sys
p = "/verif/harness_counts.json"
d = json.load(open(p)) if os.path.exists(p) else {}
src = sys.argv[1] if len(sys.argv) > 1 else "/verif/evidence"
for f in sorted(glob.glob(src + "/*.json")):
    e = json.load(open(f))
    if e.get("violations") or e["coverage"].get("harnesses_inconclusive") or e["coverage"].get("harnesses_failed"):
        continue
    d.setdefault(e["property_id"], {})[e["tier"]] = e["coverage"]["harnesses_total"]
json.dump(d, open(p, "w"), indent=1, sort_keys=True)
print(json.dumps(d))
