#!/bin/bash
# usage: tools/kani1.sh <crate> <unit spec> <harness> [timeout_s] -- run one harness directly with full CBMC output (debugging)
CRATE=$1; UNIT=$2; H=$3; T=${4:-600}
FEAT=""; U=$UNIT
case "$UNIT" in *^*) FEAT="--features ${UNIT#*^}"; U=${UNIT%%^*};; esac
CAP=""; case "$U" in *@*) CAP="--cfg verif_cap=\"${U#*@}\""; U=${U%%@*};; esac
FL="--cfg verif_unit=\"$U\" --cfg verif_probe"; [ -n "$CAP" ] && FL="$FL $CAP"
FL="$FL -Zmir-opt-level=3 -Zmir-enable-passes=-GVN"
cd /repo; export CARGO_NET_OFFLINE=true
(ulimit -v 20000000; RUSTFLAGS="$FL" timeout $T cargo kani -p $CRATE $FEAT --target-dir "/verif/.cache/$CRATE/probe-$UNIT" -Z unstable-options -Z stubbing --no-assertion-reach-checks --harness $H 2>&1) | grep -v "^warning\|^ *|\|^ *=\|^ *-->\|^$" | grep -B2 -A3 "FAILURE\|ERROR\|^VERIFICATION\|Verification Time\|SUMMARY\|error\|Runtime" | tail -60 | cut -c1-250
