#!/usr/bin/env python3
"""Summarise a terse multi-threaded cargo-kani log: harness, verdict, time."""
import re, sys
cur = {}
res = []
lines = open(sys.argv[1], errors='replace').read().split('\n')
i = 0
thread = None
block = None
for ln in lines:
    m = re.match(r'Thread (\d+): Checking harness (\S+)\.\.\.', ln)
    if m:
        cur[m.group(1)] = m.group(2); continue
    m = re.match(r'Thread (\d+): *$', ln)
    if m:
        thread = m.group(1); block = {'h': cur.get(thread), 'v': None, 't': None, 'why': ''}; res.append(block); continue
    if block is not None:
        if 'VERIFICATION:-' in ln: block['v'] = ln.split('VERIFICATION:- ')[1][:10]
        m = re.match(r'Verification Time: ([\d.]+)s', ln)
        if m: block['t'] = float(m.group(1))
        if 'timed out' in ln: block['why'] = 'timeout'
        if 'status 6' in ln or 'out of memory' in ln: block['why'] = 'oom/crash'
        if 'Failed Checks' in ln: block['why'] += ' ' + ln.strip()[:80]
done = set()
for b in res:
    if b['h']:
        print(f"{(b['v'] or '?'):10s} {b['t'] if b['t'] is not None else -1:8.1f} {b['h'].split('verif::')[-1]:60s} {b['why'][:100]}")
        done.add(b['h'])
for t, h in cur.items():
    if h not in done: print(f"RUNNING             {h.split('verif::')[-1]}")
