#!/bin/bash
# usage: tools/run_seed.sh <seed name, e.g. C05-r1> <property> [extra ./check args]
# applies the seeded change to /repo, runs the property's check, undoes the change.
set -u
SEED=$1; PROP=$2; shift 2
cd /verif
if ! git -C /repo diff --quiet; then echo "/repo has uncommitted changes, refusing"; exit 3; fi
git -C /repo apply "/verif/seeded/$SEED/patch.diff" || { echo "patch does not apply"; exit 3; }
mkdir -p .cache/seedruns
./check "$PROP" "$@" > ".cache/seedruns/$SEED-$PROP.log" 2>&1
rc=$?
git -C /repo checkout -- .
echo "seed=$SEED prop=$PROP rc=$rc $(grep -a -c VIOLATION .cache/seedruns/$SEED-$PROP.log) violation line(s)"
grep -a "VIOLATION\|INCONCLUSIVE\|^OK" ".cache/seedruns/$SEED-$PROP.log" | head -5
exit $rc
