#!/bin/bash
# usage: tools/matrix.sh <tier> <seed>:<prop>[:<only filter>] ...   -- applies each seeded change to /repo, runs the
# property's check, undoes the change; one summary line per run in .cache/logs/matrix-<tier>.txt
TIER=$1; shift
cd /verif; mkdir -p .cache/seedruns .cache/seed-evidence .cache/seed-replay
export VERIF_EVIDENCE_DIR=/verif/.cache/seed-evidence VERIF_REPLAY_DIR=/verif/.cache/seed-replay
for item in "$@"; do
  IFS=: read -r SEED PROP ONLY <<< "$item"
  if ! git -C /repo diff --quiet; then echo "/repo dirty, stop"; exit 3; fi
  git -C /repo apply "/verif/seeded/$SEED/patch.diff" || { echo "$SEED: patch does not apply" >> .cache/logs/matrix-$TIER.txt; continue; }
  t0=$(date +%s)
  if [ -n "$ONLY" ]; then ./check "$PROP" --tier "$TIER" --only "$ONLY" > ".cache/seedruns/$SEED-$PROP-$TIER.log" 2>&1; else ./check "$PROP" --tier "$TIER" > ".cache/seedruns/$SEED-$PROP-$TIER.log" 2>&1; fi
  rc=$?
  git -C /repo checkout -- .
  v=$(grep -a -c "^VIOLATION" ".cache/seedruns/$SEED-$PROP-$TIER.log")
  echo "seed=$SEED prop=$PROP tier=$TIER rc=$rc violations=$v wall=$(( $(date +%s) - t0 ))s :: $(grep -a "counterexample in\|INCONCLUSIVE\|^OK" .cache/seedruns/$SEED-$PROP-$TIER.log | head -3 | tr '\n' ' ' | cut -c1-300)" >> .cache/logs/matrix-$TIER.txt
done
