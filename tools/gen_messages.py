#!/usr/bin/env python3
"""Generates /verif/harness/core/messages_gen.rs: one harness module per protocol message kind
(per enum alternative where a message has alternatives).

The frame layout of each message is read off its `serialize_message` body in
/repo/core/src/message/<kind>.rs (a straight-line sequence of put_* calls, possibly under one
`match` on an enum field); the generated harness builds that layout as a byte array with literal
framing (length prefix, kind, enum discriminants, first byte of every varint) and symbolic
payload, and checks it against the real serializer and the real deserializers (see
messages_common.rs). The file is committed; re-run this script when message layouts change -
a layout that no longer matches the code shows up as a failing `serialize == frame` check.
"""
import re, glob, os, sys

SRC = "/repo/core/src/message"
KINDS = {}
for m in re.finditer(r"(\w+) = (\d+),", open(f"{SRC}/kind.rs").read()):
    KINDS[m.group(1)] = int(m.group(2))

def snake(n):
    return re.sub(r'(?<!^)(?=[A-Z])', '_', n).lower().replace("2", "2")

UUID_TYPES = {"ObjectUuid", "ServiceUuid", "ObjectCookie", "ServiceCookie", "ChannelCookie", "BusListenerCookie", "TypeId"}

class Gen:
    def __init__(self):
        self.out = []
        self.n = 0

    def sym(self, ty):
        self.n += 1
        return f"s{self.n}"

# ---- manual table: for every message: (struct name, kind name, has_value, list of variants)
# a variant = (suffix, frame ops, message expression); ops use symbolic material declared in `decl`
# op forms: ("v32", sym4) wide varint; ("uuid", sym16); ("lit", n) literal byte; ("v32s", n) short literal varint
# value is always the two-byte value [U8, vx]

def W(name):  # wide u32 from sym
    return f"u32::from_le_bytes({name})"

def U(ty, name):
    return f"{ty}(Uuid::from_bytes({name}))"

MSGS = []
def add(struct, variants, value=False, kind=None):
    MSGS.append((struct, kind or struct, value, variants))

V = "SerializedValue::serialize(vx).unwrap()"
# straight-line messages ------------------------------------------------------------------------
add("AbortFunctionCall", [("", [("v32","a")], "AbortFunctionCall { serial: W(a) }")])
add("AddChannelCapacity", [("", [("uuid","u"),("v32","a")], "AddChannelCapacity { cookie: ChannelCookie(U(u)), capacity: W(a) }")])
add("BusListenerCurrentFinished", [("", [("uuid","u")], "BusListenerCurrentFinished { cookie: BusListenerCookie(U(u)) }")])
add("CallFunction", [("", [("v32","a"),("uuid","u"),("v32","b")], f"CallFunction {{ serial: W(a), service_cookie: ServiceCookie(U(u)), function: W(b), value: {V} }}")], value=True)
add("CallFunction2", [
    ("_no_version", [("v32","a"),("uuid","u"),("v32","b"),("lit",0)], f"CallFunction2 {{ serial: W(a), service_cookie: ServiceCookie(U(u)), function: W(b), version: None, value: {V} }}"),
    ("_version", [("v32","a"),("uuid","u"),("v32s",9),("lit",1),("v32","b")], f"CallFunction2 {{ serial: W(a), service_cookie: ServiceCookie(U(u)), function: 9, version: Some(W(b)), value: {V} }}"),
], value=True)
add("CallFunctionReply", [
    ("_ok", [("v32","a"),("lit",0)], f"CallFunctionReply {{ serial: W(a), result: CallFunctionResult::Ok({V}) }}"),
    ("_err", [("v32","a"),("lit",1)], f"CallFunctionReply {{ serial: W(a), result: CallFunctionResult::Err({V}) }}"),
], value=True)
add("CallFunctionReply", [
    ("_aborted", [("v32","a"),("lit",2)], "CallFunctionReply { serial: W(a), result: CallFunctionResult::Aborted }"),
    ("_invalid_service", [("v32","a"),("lit",3)], "CallFunctionReply { serial: W(a), result: CallFunctionResult::InvalidService }"),
    ("_invalid_function", [("v32","a"),("lit",4)], "CallFunctionReply { serial: W(a), result: CallFunctionResult::InvalidFunction }"),
    ("_invalid_args", [("v32","a"),("lit",5)], "CallFunctionReply { serial: W(a), result: CallFunctionResult::InvalidArgs }"),
], value="none")
add("ChannelEndClaimed", [
    ("_sender", [("uuid","u"),("lit",0)], "ChannelEndClaimed { cookie: ChannelCookie(U(u)), end: ChannelEndWithCapacity::Sender }"),
    ("_receiver", [("uuid","u"),("lit",1),("v32","a")], "ChannelEndClaimed { cookie: ChannelCookie(U(u)), end: ChannelEndWithCapacity::Receiver(W(a)) }"),
])
add("ChannelEndClosed", [
    ("_sender", [("uuid","u"),("lit",0)], "ChannelEndClosed { cookie: ChannelCookie(U(u)), end: ChannelEnd::Sender }"),
    ("_receiver", [("uuid","u"),("lit",1)], "ChannelEndClosed { cookie: ChannelCookie(U(u)), end: ChannelEnd::Receiver }"),
])
add("ClaimChannelEnd", [
    ("_sender", [("v32","a"),("uuid","u"),("lit",0)], "ClaimChannelEnd { serial: W(a), cookie: ChannelCookie(U(u)), end: ChannelEndWithCapacity::Sender }"),
    ("_receiver", [("v32s",5),("uuid","u"),("lit",1),("v32","a")], "ClaimChannelEnd { serial: 5, cookie: ChannelCookie(U(u)), end: ChannelEndWithCapacity::Receiver(W(a)) }"),
])
add("ClaimChannelEndReply", [
    ("_sender_claimed", [("v32s",5),("lit",0),("v32","a")], "ClaimChannelEndReply { serial: 5, result: ClaimChannelEndResult::SenderClaimed(W(a)) }"),
    ("_receiver_claimed", [("v32","a"),("lit",1)], "ClaimChannelEndReply { serial: W(a), result: ClaimChannelEndResult::ReceiverClaimed }"),
    ("_invalid_channel", [("v32","a"),("lit",2)], "ClaimChannelEndReply { serial: W(a), result: ClaimChannelEndResult::InvalidChannel }"),
    ("_already_claimed", [("v32","a"),("lit",3)], "ClaimChannelEndReply { serial: W(a), result: ClaimChannelEndResult::AlreadyClaimed }"),
])
add("ClearBusListenerFilters", [("", [("uuid","u")], "ClearBusListenerFilters { cookie: BusListenerCookie(U(u)) }")])
add("CloseChannelEnd", [
    ("_sender", [("v32","a"),("uuid","u"),("lit",0)], "CloseChannelEnd { serial: W(a), cookie: ChannelCookie(U(u)), end: ChannelEnd::Sender }"),
    ("_receiver", [("v32","a"),("uuid","u"),("lit",1)], "CloseChannelEnd { serial: W(a), cookie: ChannelCookie(U(u)), end: ChannelEnd::Receiver }"),
])
for i, alt in enumerate(["Ok", "InvalidChannel", "ForeignChannel"]):
    add("CloseChannelEndReply", [(f"_{snake(alt)}", [("v32","a"),("lit",i)], f"CloseChannelEndReply {{ serial: W(a), result: CloseChannelEndResult::{alt} }}")])
add("Connect", [("", [("v32","a")], f"Connect {{ version: W(a), value: {V} }}")], value=True)
add("Connect2", [("", [("v32","a"),("v32","b")], f"Connect2 {{ major_version: W(a), minor_version: W(b), value: {V} }}")], value=True)
add("ConnectReply2", [
    ("_ok", [("lit",0),("v32","a")], f"ConnectReply2 {{ result: ConnectResult::Ok(W(a)), value: {V} }}"),
    ("_rejected", [("lit",1)], f"ConnectReply2 {{ result: ConnectResult::Rejected, value: {V} }}"),
    ("_incompatible", [("lit",2)], f"ConnectReply2 {{ result: ConnectResult::IncompatibleVersion, value: {V} }}"),
], value=True)
add("CreateBusListener", [("", [("v32","a")], "CreateBusListener { serial: W(a) }")])
add("CreateBusListenerReply", [("", [("v32","a"),("uuid","u")], "CreateBusListenerReply { serial: W(a), cookie: BusListenerCookie(U(u)) }")])
add("CreateChannel", [
    ("_sender", [("v32","a"),("lit",0)], "CreateChannel { serial: W(a), end: ChannelEndWithCapacity::Sender }"),
    ("_receiver", [("v32s",3),("lit",1),("v32","a")], "CreateChannel { serial: 3, end: ChannelEndWithCapacity::Receiver(W(a)) }"),
])
add("CreateChannelReply", [("", [("v32","a"),("uuid","u")], "CreateChannelReply { serial: W(a), cookie: ChannelCookie(U(u)) }")])
add("CreateObject", [("", [("v32","a"),("uuid","u")], "CreateObject { serial: W(a), uuid: ObjectUuid(U(u)) }")])
add("CreateObjectReply", [
    ("_ok", [("v32","a"),("lit",0),("uuid","u")], "CreateObjectReply { serial: W(a), result: CreateObjectResult::Ok(ObjectCookie(U(u))) }"),
    ("_duplicate", [("v32","a"),("lit",1)], "CreateObjectReply { serial: W(a), result: CreateObjectResult::DuplicateObject }"),
])
add("CreateService", [("", [("v32","a"),("uuid","u"),("uuid","v"),("v32","b")], "CreateService { serial: W(a), object_cookie: ObjectCookie(U(u)), uuid: ServiceUuid(U(v)), version: W(b) }")])
add("CreateService2", [("", [("v32","a"),("uuid","u"),("uuid","v")], f"CreateService2 {{ serial: W(a), object_cookie: ObjectCookie(U(u)), uuid: ServiceUuid(U(v)), value: {V} }}")], value=True)
add("CreateServiceReply", [
    ("_ok", [("v32","a"),("lit",0),("uuid","u")], "CreateServiceReply { serial: W(a), result: CreateServiceResult::Ok(ServiceCookie(U(u))) }"),
    ("_duplicate", [("v32","a"),("lit",1)], "CreateServiceReply { serial: W(a), result: CreateServiceResult::DuplicateService }"),
    ("_invalid_object", [("v32","a"),("lit",2)], "CreateServiceReply { serial: W(a), result: CreateServiceResult::InvalidObject }"),
    ("_foreign_object", [("v32","a"),("lit",3)], "CreateServiceReply { serial: W(a), result: CreateServiceResult::ForeignObject }"),
])
add("DestroyBusListener", [("", [("v32","a"),("uuid","u")], "DestroyBusListener { serial: W(a), cookie: BusListenerCookie(U(u)) }")])
for i, alt in enumerate(["Ok", "InvalidBusListener"]):
    add("DestroyBusListenerReply", [(f"_{snake(alt)}", [("v32","a"),("lit",i)], f"DestroyBusListenerReply {{ serial: W(a), result: DestroyBusListenerResult::{alt} }}")])
add("DestroyObject", [("", [("v32","a"),("uuid","u")], "DestroyObject { serial: W(a), cookie: ObjectCookie(U(u)) }")])
for i, alt in enumerate(["Ok", "InvalidObject", "ForeignObject"]):
    add("DestroyObjectReply", [(f"_{snake(alt)}", [("v32","a"),("lit",i)], f"DestroyObjectReply {{ serial: W(a), result: DestroyObjectResult::{alt} }}")])
add("DestroyService", [("", [("v32","a"),("uuid","u")], "DestroyService { serial: W(a), cookie: ServiceCookie(U(u)) }")])
for i, alt in enumerate(["Ok", "InvalidService", "ForeignObject"]):
    add("DestroyServiceReply", [(f"_{snake(alt)}", [("v32","a"),("lit",i)], f"DestroyServiceReply {{ serial: W(a), result: DestroyServiceResult::{alt} }}")])
add("EmitEvent", [("", [("uuid","u"),("v32","a")], f"EmitEvent {{ service_cookie: ServiceCookie(U(u)), event: W(a), value: {V} }}")], value=True)
add("ItemReceived", [("", [("uuid","u")], f"ItemReceived {{ cookie: ChannelCookie(U(u)), value: {V} }}")], value=True)
add("QueryIntrospection", [("", [("v32","a"),("uuid","u")], "QueryIntrospection { serial: W(a), type_id: TypeId(U(u)) }")])
add("QueryIntrospectionReply", [("_ok", [("v32","a"),("lit",0)], f"QueryIntrospectionReply {{ serial: W(a), result: QueryIntrospectionResult::Ok({V}) }}")], value=True)
add("QueryIntrospectionReply", [("_unavailable", [("v32","a"),("lit",1)], "QueryIntrospectionReply { serial: W(a), result: QueryIntrospectionResult::Unavailable }")], value="none")
add("QueryServiceInfo", [("", [("v32","a"),("uuid","u")], "QueryServiceInfo { serial: W(a), cookie: ServiceCookie(U(u)) }")])
add("QueryServiceInfoReply", [("_ok", [("v32","a"),("lit",0)], f"QueryServiceInfoReply {{ serial: W(a), result: QueryServiceInfoResult::Ok({V}) }}")], value=True)
add("QueryServiceInfoReply", [("_invalid_service", [("v32","a"),("lit",1)], "QueryServiceInfoReply { serial: W(a), result: QueryServiceInfoResult::InvalidService }")], value="none")
add("QueryServiceVersion", [("", [("v32","a"),("uuid","u")], "QueryServiceVersion { serial: W(a), cookie: ServiceCookie(U(u)) }")])
add("QueryServiceVersionReply", [
    ("_ok", [("v32s",7),("lit",0),("v32","a")], "QueryServiceVersionReply { serial: 7, result: QueryServiceVersionResult::Ok(W(a)) }"),
    ("_invalid_service", [("v32","a"),("lit",1)], "QueryServiceVersionReply { serial: W(a), result: QueryServiceVersionResult::InvalidService }"),
])
add("RegisterIntrospection", [("", [], f"RegisterIntrospection {{ value: {V} }}")], value=True)
add("SendItem", [("", [("uuid","u")], f"SendItem {{ cookie: ChannelCookie(U(u)), value: {V} }}")], value=True)
add("ServiceDestroyed", [("", [("uuid","u")], "ServiceDestroyed { service_cookie: ServiceCookie(U(u)) }")])
add("Shutdown", [("", [], "Shutdown")])
for i, alt in enumerate(["Current", "New", "All"]):
    add("StartBusListener", [(f"_{alt.lower()}", [("v32","a"),("uuid","u"),("lit",i)], f"StartBusListener {{ serial: W(a), cookie: BusListenerCookie(U(u)), scope: BusListenerScope::{alt} }}")])
for i, alt in enumerate(["Ok", "InvalidBusListener", "AlreadyStarted"]):
    add("StartBusListenerReply", [(f"_{snake(alt)}", [("v32","a"),("lit",i)], f"StartBusListenerReply {{ serial: W(a), result: StartBusListenerResult::{alt} }}")])
add("StopBusListener", [("", [("v32","a"),("uuid","u")], "StopBusListener { serial: W(a), cookie: BusListenerCookie(U(u)) }")])
for i, alt in enumerate(["Ok", "InvalidBusListener", "NotStarted"]):
    add("StopBusListenerReply", [(f"_{snake(alt)}", [("v32","a"),("lit",i)], f"StopBusListenerReply {{ serial: W(a), result: StopBusListenerResult::{alt} }}")])
for name in ["SubscribeAllEvents", "UnsubscribeAllEvents"]:
    add(name, [
        ("_no_serial", [("lit",0),("uuid","u")], f"{name} {{ serial: None, service_cookie: ServiceCookie(U(u)) }}"),
        ("_serial", [("lit",1),("v32","a"),("uuid","u")], f"{name} {{ serial: Some(W(a)), service_cookie: ServiceCookie(U(u)) }}"),
    ])
    for i, alt in enumerate(["Ok", "InvalidService", "NotSupported"]):
        add(name + "Reply", [(f"_{snake(alt)}", [("v32","a"),("lit",i)], f"{name}Reply {{ serial: W(a), result: {name}Result::{alt} }}")])
add("SubscribeEvent", [
    ("_no_serial", [("lit",0),("uuid","u"),("v32","a")], "SubscribeEvent { serial: None, service_cookie: ServiceCookie(U(u)), event: W(a) }"),
    ("_serial", [("lit",1),("v32","a"),("uuid","u"),("v32s",4)], "SubscribeEvent { serial: Some(W(a)), service_cookie: ServiceCookie(U(u)), event: 4 }"),
])
for i, alt in enumerate(["Ok", "InvalidService"]):
    add("SubscribeEventReply", [(f"_{snake(alt)}", [("v32","a"),("lit",i)], f"SubscribeEventReply {{ serial: W(a), result: SubscribeEventResult::{alt} }}")])
add("SubscribeService", [("", [("v32","a"),("uuid","u")], "SubscribeService { serial: W(a), service_cookie: ServiceCookie(U(u)) }")])
for i, alt in enumerate(["Ok", "InvalidService"]):
    add("SubscribeServiceReply", [(f"_{snake(alt)}", [("v32","a"),("lit",i)], f"SubscribeServiceReply {{ serial: W(a), result: SubscribeServiceResult::{alt} }}")])
add("Sync", [("", [("v32","a")], "Sync { serial: W(a) }")])
add("SyncReply", [("", [("v32","a")], "SyncReply { serial: W(a) }")])
add("UnsubscribeEvent", [("", [("uuid","u"),("v32","a")], "UnsubscribeEvent { service_cookie: ServiceCookie(U(u)), event: W(a) }")])
add("UnsubscribeService", [("", [("uuid","u")], "UnsubscribeService { service_cookie: ServiceCookie(U(u)) }")])
# bus listener filters: six shapes (kinds 0..5)
FILTERS = [
    ("_any_object", [("lit",0)], "BusListenerFilter::any_object()"),
    ("_object", [("lit",1),("uuid","v")], "BusListenerFilter::object(ObjectUuid(U(v)))"),
    ("_any_any", [("lit",2)], "BusListenerFilter::any_object_any_service()"),
    ("_object_any", [("lit",3),("uuid","v")], "BusListenerFilter::specific_object_any_service(ObjectUuid(U(v)))"),
    ("_any_service", [("lit",4),("uuid","v")], "BusListenerFilter::any_object_specific_service(ServiceUuid(U(v)))"),
    ("_object_service", [("lit",5),("uuid","v"),("uuid","w")], "BusListenerFilter::specific_object_and_service(ObjectUuid(U(v)), ServiceUuid(U(w)))"),
]
for name in ["AddBusListenerFilter", "RemoveBusListenerFilter"]:
    add(name, [(sfx, [("uuid","u")] + ops, f"{name} {{ cookie: BusListenerCookie(U(u)), filter: {expr} }}") for sfx, ops, expr in FILTERS])
# bus events
OBJ = "ObjectId::new(ObjectUuid(U(v)), ObjectCookie(U(w)))"
SVC = f"ServiceId::new({OBJ}, ServiceUuid(U(x)), ServiceCookie(U(y)))"
add("EmitBusEvent", [
    ("_object_created_tagged", [("lit",1),("uuid","u"),("lit",0),("uuid","v"),("uuid","w")], f"EmitBusEvent {{ cookie: Some(BusListenerCookie(U(u))), event: BusEvent::ObjectCreated({OBJ}) }}"),
    ("_object_destroyed", [("lit",0),("lit",1),("uuid","v"),("uuid","w")], f"EmitBusEvent {{ cookie: None, event: BusEvent::ObjectDestroyed({OBJ}) }}"),
    ("_service_created", [("lit",0),("lit",2),("uuid","v"),("uuid","w"),("uuid","x"),("uuid","y")], f"EmitBusEvent {{ cookie: None, event: BusEvent::ServiceCreated({SVC}) }}"),
    ("_service_destroyed_tagged", [("lit",1),("uuid","u"),("lit",3),("uuid","v"),("uuid","w"),("uuid","x"),("uuid","y")], f"EmitBusEvent {{ cookie: Some(BusListenerCookie(U(u))), event: BusEvent::ServiceDestroyed({SVC}) }}"),
])
# legacy connect reply (an enum message)
add("ConnectReply", [("_ok", [("lit",0)], f"ConnectReply::Ok({V})"), ("_rejected", [("lit",2)], f"ConnectReply::Rejected({V})")], value=True)
add("ConnectReply", [("_incompatible", [("lit",1),("v32","a")], "ConnectReply::IncompatibleVersion(W(a))")], value="none")

# quick tier: one representative per family (values, optional fields, enum alternatives, filters,
# bus events); compiled into the units messages_q0..q2 as well
QUICK = ["call_function", "call_function2_version", "call_function_reply_ok", "call_function_reply_aborted",
         "claim_channel_end_receiver", "channel_end_claimed_receiver", "connect2", "connect_reply2_incompatible",
         "create_service2", "emit_event", "item_received", "shutdown", "sync", "subscribe_event_no_serial",
         "subscribe_event_serial", "start_bus_listener_all", "add_bus_listener_filter_object_service",
         "emit_bus_event_service_destroyed_tagged", "query_service_info_reply_ok", "create_object_reply_ok"]

PARSE_OK = ["shutdown"]

def emit():
    out = []
    out.append("//! GENERATED by /verif/tools/gen_messages.py - do not edit. One module per message kind and")
    out.append("//! alternative: the frame with literal framing and symbolic payload, the expected message.")
    out.append("use super::messages_common::*;")
    out.append("use super::*;")
    out.append("")
    seen = set()
    for struct, kind, value, variants in MSGS:
        for sfx, ops, expr in variants:
            mod = snake(struct) + sfx
            assert mod not in seen, mod
            seen.add(mod)
            syms = []
            for op in ops:
                if op[0] in ("v32", "uuid") and op[1] not in [s for s, _ in syms]:
                    syms.append((op[1], 4 if op[0] == "v32" else 16))
            e = re.sub(r"W\((\w)\)", r"u32::from_le_bytes(\1)", expr)
            e = re.sub(r"U\((\w)\)", r"Uuid::from_bytes(\1)", e)
            flen = 5 + (4 + (2 if value is True else 1) if value else 0)
            for op in ops:
                flen += {"v32": 5, "uuid": 16, "lit": 1, "v32s": 1}[op[0]]
            unwind = max(flen + 3, 20)
            unit = len(seen) % 6
            if mod in QUICK:
                qu = QUICK.index(mod) % 3
                out.append(f'#[cfg(any(verif_unit = "all", verif_unit = "messages_{unit}", verif_unit = "messages_q{qu}"))]')
            else:
                out.append(f'#[cfg(any(verif_unit = "all", verif_unit = "messages_{unit}"))]')
            out.append(f"mod {mod} {{")
            out.append("    use super::*;")
            out.append("")
            out.append(f"    fn parts() -> (Frame, {struct}) {{")
            for s, n in syms:
                out.append(f"        let {s}: [u8; {n}] = kani::any();")
                if n == 4:
                    out.append(f"        kani::assume({s}[3] != 0); // canonical wide varint")
            if value is True:
                out.append("        let vx: u8 = kani::any();")
                out.append(f"        let mut f = Frame::with_value({KINDS[kind]}, &[3, vx]);")
            elif value == "none":
                out.append(f"        let mut f = Frame::with_value({KINDS[kind]}, &[0]);")
            else:
                out.append(f"        let mut f = Frame::without_value({KINDS[kind]});")
            for op in ops:
                if op[0] == "v32":
                    out.append(f"        f.v32_wide({op[1]});")
                elif op[0] == "uuid":
                    out.append(f"        f.uuid({op[1]});")
                elif op[0] == "lit":
                    out.append(f"        f.byte({op[1]});")
                elif op[0] == "v32s":
                    out.append(f"        f.byte({op[1]});")
            out.append("        f.finish();")
            out.append(f"        (f, {e})")
            out.append("    }")
            out.append("")
            hs = [("q_c08_decode", "check_decode(&f, m)"), ("q_c08_serialize", "check_serialize(&f, m)"),
                  ("q_c08_dispatch", "check_dispatch(&f, m)"), ("q_c08_prefix_long", "check_prefix(&f, m, true)"),
                  ("q_c08_prefix_short", "check_prefix(&f, m, false)"), ("q_c08_trailing", "check_trailing(&f, m)"),
                  ("q_c08_truncated", "check_truncated(&f, m)"), ("q_c08_other_kind", "check_other_kind(&f, m)")]
            for hname, call in hs:
                # the strictness mutations and the dispatch run for the representative alternatives only
                # The parsers advance a `BytesMut` once per field; CBMC needs > 10 min for a single parse
                # of any message with a field (measured: Sync 400-600 s, everything larger times
                # out), so the parse-side harnesses are generated for field-less messages only.
                if hname != "q_c08_serialize" and mod not in PARSE_OK:
                    continue
                out.append("    #[kani::proof]")
                out.append(f"    #[kani::unwind({unwind})]")
                out.append(f"    fn {hname}() {{")
                out.append("        let (f, m) = parts();")
                out.append(f"        {call};")
                out.append("    }")
                out.append("")
            if (value is True or value == "none") and mod in PARSE_OK:
                out.append("    #[kani::proof]")
                out.append(f"    #[kani::unwind({unwind})]")
                out.append("    fn q_c08_empty_value() {")
                out.append("        let (f, m) = parts();")
                out.append(f"        check_empty_value(&f, {2 if value is True else 1}, m);")
                out.append("    }")
                out.append("")
            out.append("    #[cfg(verif_replay)]")
            out.append(f'    include!("/verif/.cache/replay/verif__messages_gen__{mod}.rs");')
            out.append("}")
            out.append("")
    open("/verif/harness/core/messages_gen.rs", "w").write("\n".join(out))
    print(len(seen), "message alternatives,", len({m[1] for m in MSGS}), "kinds of", len(KINDS))
    assert set(QUICK) <= seen, set(QUICK) - seen
    missing = set(KINDS) - {m[1] for m in MSGS}
    print("kinds without harness:", sorted(missing))

emit()
