#!/usr/bin/env python3
"""Reads .cache/logs/matrix-<tier>.txt (tools/matrix.sh) and the seeded/*/meta.json files, writes
seeded/MATRIX.md (detection matrix) and fills `detected_by` in each meta.json."""
import json, glob, os, re
runs = {}
for tier in ("quick", "thorough"):
    p = f"/verif/.cache/logs/matrix-{tier}.txt"
    if not os.path.exists(p):
        continue
    for l in open(p):
        m = re.match(r"seed=(\S+) prop=(\S+) tier=(\S+) rc=(\d+) violations=(\d+) wall=(\d+)s :: (.*)", l)
        if m:
            seed, prop, t, rc, v, wall, rest = m.groups()
            hs = re.findall(r"counterexample in (\S+):", rest)
            runs.setdefault(seed, []).append(dict(prop=prop, tier=t, rc=int(rc), violations=int(v), wall=int(wall), harnesses=hs, note=rest.strip()[:160]))
rows = []
for d in sorted(glob.glob("/verif/seeded/*/")):
    seed = os.path.basename(d.rstrip("/"))
    mp = d + "meta.json"
    meta = json.load(open(mp))
    rs = runs.get(seed, [])
    det = [f"{r['prop']} {r['tier']}: VIOLATION ({', '.join(h.split('::')[-1] for h in r['harnesses'][:2])})" for r in rs if r["rc"] == 1]
    miss = [f"{r['prop']} {r['tier']}: " + ("passes (missed)" if r["rc"] == 0 else "inconclusive") for r in rs if r["rc"] != 1]
    meta["detected_by"] = det if det else ("not detected: " + "; ".join(miss) if miss else None)
    json.dump(meta, open(mp, "w"), indent=1)
    rows.append((seed, meta["property"], ", ".join(meta.get("files", [])), det, miss))
out = ["# Seeded changes and which checks catch them", "",
       "Produced by `tools/matrix.sh` (applies `seeded/<id>/patch.diff` to /repo, runs the check, undoes the change) and `tools/gen_matrix_md.py`.", "",
       "| seed | property | changed file | caught by | not caught by |", "|---|---|---|---|---|"]
for seed, prop, files, det, miss in rows:
    out.append(f"| {seed} | {prop} | {files} | {'<br>'.join(det) or '-'} | {'<br>'.join(miss) or '-'} |")
open("/verif/seeded/MATRIX.md", "w").write("\n".join(out) + "\n")
print("\n".join(out))
