#!/bin/bash
# usage: tools/probe.sh <crate> <unit spec> <harness filter> [harness timeout] [jobs] -- debugging: runs harnesses compiled under --cfg verif_probe, terse
CRATE=$1; UNIT=$2; H=$3; T=${4:-300}; J=${5:-6}
FEAT=""; U=$UNIT
case "$UNIT" in *^*) FEAT="--features ${UNIT#*^}"; U=${UNIT%%^*};; esac
CAP=""; case "$U" in *@*) CAP="--cfg verif_cap=\"${U#*@}\""; U=${U%%@*};; esac
FL="--cfg verif_unit=\"$U\" --cfg verif_probe"; [ -n "$CAP" ] && FL="$FL $CAP"
FL="$FL -Zmir-opt-level=3 -Zmir-enable-passes=-GVN"
cd /repo; export CARGO_NET_OFFLINE=true
(ulimit -v 16000000; RUSTFLAGS="$FL" cargo kani -p $CRATE $FEAT --target-dir "/verif/.cache/$CRATE/probe-$UNIT" -Z unstable-options -Z stubbing --harness $H --harness-timeout $T -j $J --no-assertion-reach-checks --output-format terse 2>&1) | grep -i "^error\|checking harness\|VERIFICATION:\|Verification Time\|timed out\|Complete\|failed for\|Failed Checks" | sed 's/Thread [0-9]*: //' | cut -c1-200
