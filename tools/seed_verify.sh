#!/bin/bash
# Confirm a seeded change: usage seed_verify.sh <worktree> <outdir>
# 1. pristine + demo  -> demo passes     2. patch + demo -> demo fails     3. patch only -> whole suite passes
set -u
WT=$1; OUT=$2
cd "$WT" || exit 2
git checkout -q -- . && git clean -fdq -e target
DEMO_CMD=$(python3 -c "import json;print(json.load(open('$OUT/meta.json'))['demo_cmd'].replace('<worktree>','$WT'))")
echo "demo_cmd: $DEMO_CMD"
git apply "$OUT/demo.diff" || { echo "demo.diff does not apply"; exit 2; }
if bash -c "$DEMO_CMD" > "$OUT/verify_demo_pristine.log" 2>&1; then echo "1 demo passes on pristine: OK"; R1=ok; else echo "1 demo FAILS on pristine: BAD"; R1=bad; fi
git apply "$OUT/patch.diff" || { echo "patch.diff does not apply"; exit 2; }
if bash -c "$DEMO_CMD" > "$OUT/verify_demo_patched.log" 2>&1; then echo "2 demo passes with patch: BAD"; R2=bad; else echo "2 demo fails with patch: OK"; R2=ok; fi
git checkout -q -- . && git clean -fdq -e target
git apply "$OUT/patch.diff"
cargo nextest run --workspace --no-fail-fast --offline > "$OUT/verify_suite_patched.log" 2>&1
SUM=$(grep -E "Summary|tests run" "$OUT/verify_suite_patched.log" | tail -1)
echo "3 suite with patch: $SUM"
if echo "$SUM" | grep -q "419 passed" && ! echo "$SUM" | grep -q "failed"; then R3=ok; else R3=bad; fi
git checkout -q -- . && git clean -fdq -e target
echo "RESULT $R1 $R2 $R3"
