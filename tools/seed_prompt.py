#!/usr/bin/env python3
"""print the prompt for a seeding sub-agent: tools/seed_prompt.py <prop id> <worktree> [extra sentence]"""
import json, sys
pid, wt = sys.argv[1], sys.argv[2]
extra = sys.argv[3] if len(sys.argv) > 3 else ""
p = [json.loads(l) for l in open('/verif/properties.jsonl') if json.loads(l)['id'] == pid][0]
print(f"""You are helping to evaluate a verification effort for the Rust project aldrin (a message bus: broker, client, value/message codec). Work ONLY inside the git worktree {wt} (a checkout of the project). Do not read or write anything under /verif or /repo, and ignore the few `#[cfg(kani)] #[path = "/verif/..."] mod verif;` hook lines you will see in the sources (they are inactive in normal builds; leave them untouched).

Property {pid}: {p['title']}
Statement: {p['statement']}
Quantified over: {p['quantifier']['text']}
Code anchors: {', '.join(p['anchors'].get('files', []))}

Task: produce ONE realistic source change (the kind of mistake a maintainer could plausibly make in a refactor, optimisation or "simplification"; a few lines, not a deliberate sabotage marker) to the non-test code of the project that BREAKS this property, while
  (a) the whole workspace still compiles, and
  (b) the complete existing test suite still passes:  cd {wt} && cargo nextest run --workspace --no-fail-fast --offline   (419 tests; fallback cargo test --workspace --offline). Always pass --offline; there is no network. Use CARGO_TARGET_DIR={wt}/target (the default) so builds stay inside the worktree.
The change must need something SPECIFIC to manifest - a particular interleaving, a fault at a particular point, a multi-step sequence of operations, an unusual input/boundary value, or two cooperating sites that each look fine alone - not something ordinary use would expose at once. {extra}

Also write a demonstration: a new test (new file under the crate's tests/ directory, or a new #[test] added to an existing test module) that FAILS with your change and PASSES without it.

Deliverables, all written into the directory {wt}/_seed/ (create it):
  patch.diff  - `git diff` of the source change only (no tests), applicable with `git apply` at the worktree root
  demo.diff   - `git diff` (include new files: use `git add -N` first) of the demonstration test only
  meta.json   - {{"property": "{pid}", "summary": "<what was changed and why it breaks the property>", "files": [..], "needs_to_manifest": "<what specific input/sequence/interleaving is needed>", "demo_cmd": "cd <worktree> && <command that runs just the demonstration test, with --offline>"}}  (keep the literal string <worktree> in demo_cmd)
Before finishing, verify yourself: (1) demo passes on the pristine tree + demo.diff, (2) demo fails with patch.diff + demo.diff, (3) full suite passes with patch.diff alone (419 passed). Leave the worktree clean of your changes at the end except for the _seed/ directory (git checkout -- . ; remove untracked test files), and keep the target/ directory. Report briefly what you did and the three verification results.""")
