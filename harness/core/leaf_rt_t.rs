//! C01-b (thorough only): the two large id kinds.
use super::*;

leaf_roundtrip!(t_c01_leaf_rt_object_id, 36, 33, ValueKind::ObjectId, |v: [[u8; 16]; 2]| Value::ObjectId(ObjectId::new(ObjectUuid(Uuid::from_bytes(v[0])), ObjectCookie(Uuid::from_bytes(v[1])))), Some(33));
leaf_roundtrip!(t_c01_leaf_rt_service_id, 68, 65, ValueKind::ServiceId, |v: [[u8; 16]; 4]| Value::ServiceId(ServiceId::new(ObjectId::new(ObjectUuid(Uuid::from_bytes(v[0])), ObjectCookie(Uuid::from_bytes(v[1]))), ServiceUuid(Uuid::from_bytes(v[2])), ServiceCookie(Uuid::from_bytes(v[3])))), Some(65));

#[cfg(verif_replay)]
include!("/verif/.cache/replay/verif__leaf_rt_t.rs");
