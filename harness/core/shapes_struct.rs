//! C01 / C07 on struct shapes: Struct1/Struct2 with two `u8` fields (ids in the one-byte varint
//! form are literals, one full-width id is symbolic), real skip walker for the legacy struct,
//! typed decoding through the real `Struct1/Struct2Deserializer`/`FieldDeserializer` driven as
//! units, real struct serializers, nesting limit.
//!
//! `UnknownFields::new()` (a `std::collections::HashMap`) is constructed by every struct
//! deserializer; `RandomState::new` is stubbed with fixed keys (it reaches TLS and `getrandom`). The
//! map is never populated on these paths. The `Value::Struct` arm is executed for the empty
//! struct only (a populated `HashMap<u32, Value>` is intractable, DESIGN.md section 1).
use super::shape_common::*;
use super::*;

const STRUCT1: u8 = ValueKind::Struct1 as u8;
const STRUCT2: u8 = ValueKind::Struct2 as u8;

pub(crate) fn fixed_random_state() -> std::collections::hash_map::RandomState {
    // RandomState { k0: u64, k1: u64 }
    unsafe { std::mem::transmute::<(u64, u64), std::collections::hash_map::RandomState>((0, 0)) }
}

/// Replacement of `UnknownFields::new()`: an empty map with fixed hasher keys (the real one asks
/// the OS for random keys). Stubbing `RandomState::new` itself has no effect at MIR opt level 3,
/// where it is inlined into `UnknownFields::new` before Kani applies stubs.
pub(crate) fn unknown_fields_new() -> crate::UnknownFields {
    crate::UnknownFields(std::collections::HashMap::with_hasher(fixed_random_state()))
}

fn all_prefixes_rejected(enc: &[u8]) {
    let mut l = 0;
    while l < enc.len() {
        check_prefix_rejected(enc, l);
        l += 1;
    }
}

fn enc1(x: u8, y: u8, w: [u8; 4]) -> [u8; 12] {
    // second field with a full-width id
    [STRUCT1, 2, 3, U8, x, 255, w[0], w[1], w[2], w[3], U8, y]
}

fn enc2(x: u8, y: u8) -> [u8; 10] {
    [STRUCT2, SOME, 3, U8, x, SOME, 250, U8, y, NONE]
}

fn wide() -> [u8; 4] {
    let w: [u8; 4] = kani::any();
    kani::assume(w[3] != 0);
    w
}

mod struct1 {
    use super::*;

    #[kani::proof]
    #[kani::unwind(14)]
    #[kani::stub(crate::UnknownFields::new, unknown_fields_new)]
    fn q_c01_c07_wellformed() {
        let enc = enc1(kani::any(), kani::any(), wide());
        check_wellformed(&enc, 2);
    }

    #[kani::proof]
    #[kani::unwind(14)]
    #[kani::stub(crate::UnknownFields::new, unknown_fields_new)]
    fn q_c07_truncations() {
        let enc = enc1(kani::any(), kani::any(), wide());
        all_prefixes_rejected(&enc);
    }

    #[kani::proof]
    #[kani::unwind(14)]
    #[kani::stub(crate::UnknownFields::new, unknown_fields_new)]
    fn q_c01_c07_typed() {
        let (x, y, w): (u8, u8, [u8; 4]) = (kani::any(), kani::any(), wide());
        let enc = enc1(x, y, w);
        let mut rd: &[u8] = &enc;
        let mut s = match Deserializer::new(&mut rd, 30).unwrap().deserialize_struct1() {
            Ok(s) => s,
            Err(_) => panic!("struct1 header rejected"),
        };
        assert!(s.len() == 2);
        let f = s.deserialize().unwrap().unwrap();
        assert!(f.id() == 3);
        assert!(f.deserialize::<tags::U8, u8>() == Ok(x));
        let f = s.deserialize().unwrap().unwrap();
        assert!(f.id() == u32::from_le_bytes(w));
        assert!(f.deserialize::<tags::U8, u8>() == Ok(y));
        assert!(matches!(s.deserialize(), Ok(None)));
        assert!(s.finish(()).is_ok());
        assert!(rd.is_empty());
        // one level deeper the field value is beyond the limit
        let mut rd: &[u8] = &enc;
        let mut s = match Deserializer::new(&mut rd, 31).unwrap().deserialize_struct1() {
            Ok(s) => s,
            Err(_) => panic!("struct1 header rejected"),
        };
        let f = s.deserialize().unwrap().unwrap();
        assert!(f.deserialize::<tags::U8, u8>() == Err(DeserializeError::TooDeeplyNested));
    }

    #[kani::proof]
    #[kani::unwind(14)]
    fn q_c01_serialize() {
        let (x, y, w): (u8, u8, [u8; 4]) = (kani::any(), kani::any(), wide());
        let enc = enc1(x, y, w);
        check_serialized(&enc, 2, |s: Serializer| {
            let mut s = s.serialize_struct1(2)?;
            s.serialize::<tags::U8>(3u32, x)?;
            s.serialize::<tags::U8>(u32::from_le_bytes(w), y)?;
            s.finish()
        });
        // field count discipline of the V1 serializer
        let mut buf = bytes::BytesMut::new();
        let s1 = Serializer::new(&mut buf, 0).unwrap().serialize_struct1(1).unwrap();
        assert!(s1.finish() == Err(SerializeError::TooFewElements));
    }

    #[cfg(any(verif_unit = "all", verif_unit = "shapes_struct_t"))]
    #[kani::proof]
    #[kani::unwind(14)]
    #[kani::stub(crate::UnknownFields::new, unknown_fields_new)]
    fn t_c01_c07_empty_through_value() {
        let e0 = [STRUCT1, 0];
        check_wellformed(&e0, 1);
        let (rv, cv) = run_value(&e0, 31);
        match &rv {
            Ok(Value::Struct(s)) => assert!(cv == 2 && s.0.is_empty()),
            _ => panic!("empty struct did not decode"),
        }
        std::mem::forget(rv);
        let (rv, _) = run_value(&e0, 32);
        assert!(matches!(rv, Err(DeserializeError::TooDeeplyNested)));
        std::mem::forget(rv);
    }

    #[cfg(verif_replay)]
    include!("/verif/.cache/replay/verif__shapes_struct__struct1.rs");
}

mod struct2 {
    use super::*;

    /// the real `Struct2Deserializer` as a unit: field-wise typed decode, skip loop, finish
    #[kani::proof]
    #[kani::unwind(14)]
    #[kani::stub(crate::UnknownFields::new, unknown_fields_new)]
    fn q_c01_c07_typed() {
        let (x, y): (u8, u8) = (kani::any(), kani::any());
        let enc = enc2(x, y);
        let mut rd: &[u8] = &enc;
        let mut s = match Deserializer::new(&mut rd, 30).unwrap().deserialize_struct2() {
            Ok(s) => s,
            Err(_) => panic!("struct2 header rejected"),
        };
        let f = s.deserialize().unwrap().unwrap();
        assert!(f.id() == 3);
        assert!(f.deserialize::<tags::U8, u8>() == Ok(x));
        let f = s.deserialize().unwrap().unwrap();
        assert!(f.id() == 250);
        assert!(f.deserialize::<tags::U8, u8>() == Ok(y));
        assert!(matches!(s.deserialize(), Ok(None)));
        assert!(s.finish(()).is_ok());
        assert!(rd.is_empty());
    }

    #[kani::proof]
    #[kani::unwind(14)]
    #[kani::stub(crate::UnknownFields::new, unknown_fields_new)]
    fn q_c01_c07_skip_unit() {
        let enc = enc2(kani::any(), kani::any());
        let mut rd: &[u8] = &enc;
        match Deserializer::new(&mut rd, 30).unwrap().deserialize_struct2() {
            Ok(s) => assert!(s.skip().is_ok()),
            Err(_) => panic!("struct2 header rejected"),
        }
        assert!(rd.is_empty(), "skip consumes exactly what decoding consumes");
        let mut rd: &[u8] = &enc;
        match Deserializer::new(&mut rd, 31).unwrap().deserialize_struct2() {
            Ok(s) => assert!(s.skip() == Err(DeserializeError::TooDeeplyNested)),
            Err(_) => panic!("struct2 header rejected"),
        }
        // truncated: the terminator is missing
        let mut rd: &[u8] = &enc[..9];
        match Deserializer::new(&mut rd, 0).unwrap().deserialize_struct2() {
            Ok(s) => assert!(s.skip() == Err(DeserializeError::UnexpectedEoi)),
            Err(_) => panic!("struct2 header rejected"),
        }
    }

    #[kani::proof]
    #[kani::unwind(14)]
    fn q_c01_serialize() {
        let (x, y): (u8, u8) = (kani::any(), kani::any());
        let enc = enc2(x, y);
        check_serialized(&enc, 2, |s: Serializer| {
            let mut s = s.serialize_struct2()?;
            s.serialize::<tags::U8>(3u32, x)?;
            s.serialize::<tags::U8>(250u32, y)?;
            s.finish()
        });
    }

    #[cfg(verif_replay)]
    include!("/verif/.cache/replay/verif__shapes_struct__struct2.rs");
}
