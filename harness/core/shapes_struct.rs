//! C01 / C07 on struct shapes: Struct1/Struct2 with up to two `u8` fields (symbolic ids in the
//! one-byte varint form and one full-width id), real skip walker, typed decoding through the real
//! `StructDeserializer`/`FieldDeserializer`, real struct serializers, nesting limit.
//!
//! `UnknownFields::new()` (a `std::collections::HashMap`) is constructed by every struct
//! deserializer; `RandomState::new` is stubbed with fixed keys (it reaches TLS and `getrandom`). The
//! map is never populated on these paths. The `Value::Struct` arm is executed for the empty
//! struct only (a populated `HashMap<u32, Value>` is intractable, DESIGN.md section 1).
use super::shape_common::*;
use super::*;
use crate::Struct;

const STRUCT1: u8 = ValueKind::Struct1 as u8;
const STRUCT2: u8 = ValueKind::Struct2 as u8;

pub(crate) fn fixed_random_state() -> std::collections::hash_map::RandomState {
    // RandomState { k0: u64, k1: u64 }
    unsafe { std::mem::transmute::<(u64, u64), std::collections::hash_map::RandomState>((0, 0)) }
}

/// Typed decode of all fields as (id, u8) pairs, in wire order.
fn run_struct(b: &[u8], d: u8) -> (Result<([(u32, u8); 2], usize), DeserializeError>, usize) {
    let mut rd = b;
    let r = (|| {
        let mut s = Deserializer::new(&mut rd, d)?.deserialize_struct()?;
        let mut out = [(0u32, 0u8); 2];
        let mut n = 0;
        while let Some(f) = s.deserialize()? {
            let id = f.id();
            let v = f.deserialize::<tags::U8, u8>()?;
            if n < 2 {
                out[n] = (id, v);
            }
            n += 1;
        }
        s.finish((out, n))
    })();
    (r, b.len() - rd.len())
}

#[kani::proof]
#[kani::unwind(8)]
#[kani::stub(std::collections::hash_map::RandomState::new, fixed_random_state)]
fn q_c01_c07_shape_struct2() {
    // ids in the one-byte form are literals (a symbolic first varint byte makes every later
    // position symbolic for CBMC)
    let i1: u8 = 3;
    let i2: u8 = 250;
    let x: u8 = kani::any();
    let y: u8 = kani::any();
    let enc = [STRUCT2, SOME, i1, U8, x, SOME, i2, U8, y, NONE];
    check_wellformed(&enc, 2);
    let (r, c) = run_struct(&enc, 0);
    match r {
        Ok((f, n)) => {
            assert!(c == 10 && n == 2);
            assert!(f[0] == (i1 as u32, x) && f[1] == (i2 as u32, y), "fields decoded wrongly");
        }
        Err(_) => panic!("typed struct decode failed"),
    }
    assert!(run_struct(&enc, 30).0.is_ok());
    assert!(run_struct(&enc, 31).0 == Err(DeserializeError::TooDeeplyNested));
    check_serialized(&enc, 2, |s| {
        let mut s = s.serialize_struct2()?;
        s.serialize::<tags::U8>(i1 as u32, x)?;
        s.serialize::<tags::U8>(i2 as u32, y)?;
        s.finish()
    });
    let mut l = 0;
    while l < 10 {
        check_prefix_rejected(&enc, l);
        l += 1;
    }
    // empty struct, also through Value
    let e0 = [STRUCT2, NONE];
    check_wellformed(&e0, 1);
    let (rv, cv) = run_value(&e0, 31);
    match &rv {
        Ok(Value::Struct(s)) => assert!(cv == 2 && s.0.is_empty()),
        _ => panic!("empty struct did not decode"),
    }
    std::mem::forget(rv);
    let (rv, _) = run_value(&e0, 32);
    assert!(matches!(rv, Err(DeserializeError::TooDeeplyNested)));
    std::mem::forget(rv);
}

#[kani::proof]
#[kani::unwind(8)]
#[kani::stub(std::collections::hash_map::RandomState::new, fixed_random_state)]
fn q_c01_c07_shape_struct1() {
    let i1: u8 = 3;
    let w: [u8; 4] = kani::any();
    kani::assume(w[3] != 0);
    let x: u8 = kani::any();
    let y: u8 = kani::any();
    // second field with a full-width id
    let enc = [STRUCT1, 2, i1, U8, x, 255, w[0], w[1], w[2], w[3], U8, y];
    check_wellformed(&enc, 2);
    let (r, c) = run_struct(&enc, 0);
    match r {
        Ok((f, n)) => {
            assert!(c == 12 && n == 2);
            assert!(f[0] == (i1 as u32, x) && f[1] == (u32::from_le_bytes(w), y));
        }
        Err(_) => panic!("typed struct decode failed"),
    }
    assert!(run_struct(&enc, 30).0.is_ok());
    assert!(run_struct(&enc, 31).0 == Err(DeserializeError::TooDeeplyNested));
    check_serialized(&enc, 2, |s| {
        let mut s = s.serialize_struct1(2)?;
        s.serialize::<tags::U8>(i1 as u32, x)?;
        s.serialize::<tags::U8>(u32::from_le_bytes(w), y)?;
        s.finish()
    });
    let mut l = 0;
    while l < 12 {
        check_prefix_rejected(&enc, l);
        l += 1;
    }
    let e0 = [STRUCT1, 0];
    check_wellformed(&e0, 1);
    let (rv, cv) = run_value(&e0, 31);
    match &rv {
        Ok(Value::Struct(s)) => assert!(cv == 2 && s.0.is_empty()),
        _ => panic!("empty struct did not decode"),
    }
    std::mem::forget(rv);
    let (rv, _) = run_value(&e0, 32);
    assert!(matches!(rv, Err(DeserializeError::TooDeeplyNested)));
    std::mem::forget(rv);
    // field count discipline of the V1 serializer
    let mut buf = bytes::BytesMut::new();
    let s1 = Serializer::new(&mut buf, 0).unwrap().serialize_struct1(1).unwrap();
    assert!(s1.finish() == Err(SerializeError::TooFewElements));
}

#[cfg(verif_replay)]
include!("/verif/.cache/replay/verif__shapes_struct.rs");
