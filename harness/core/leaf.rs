//! C01-b / C07 leaf kinds: the real `Value` (de)serializer and the real `Deserializer::skip`
//! dispatcher, one harness per kind (literal kind byte, symbolic payload).
use crate::tags;
use crate::{Deserialize, Deserializer, SerializedValue, SerializedValueSlice, Value, ValueKind, DeserializeError};

/// Round trip of a scalar `Value` (C01-b): real `SerializedValue::serialize(&Value)`, then the
/// real `Value::deserialize`. The decoder is handed a fixed-size array whose kind byte is the
/// literal `$kind` (after asserting that the serializer wrote exactly that byte): CBMC cannot
/// keep the kind concrete through `BytesMut`, and a symbolic kind re-enters all 66 arms.
macro_rules! leaf_roundtrip {
    ($name:ident, $unwind:expr, $max:expr, $kind:expr, $ty:ty, |$v:ident| $mk:expr, |$a:ident, $b:ident| $eq:expr) => {
        #[kani::proof]
        #[kani::unwind($unwind)]
        fn $name() {
            let $v: $ty = kani::any();
            let val: Value = $mk;
            let ser = SerializedValue::serialize(&val).unwrap();
            let bytes: &[u8] = &ser;
            let n = bytes.len();
            assert!(n >= 1 && n <= $max);
            assert!(bytes[0] == $kind as u8);
            let mut arr = [0u8; $max];
            let mut i = 1;
            while i < $max {
                if i < n {
                    arr[i] = bytes[i];
                }
                i += 1;
            }
            arr[0] = $kind as u8;
            let mut rd: &[u8] = &arr[..];
            let d = Deserializer::new(&mut rd, 0).unwrap();
            let back = Value::deserialize(d);
            let Ok(back) = back else { panic!("decode of a freshly encoded value failed") };
            assert!($max - rd.len() == n, "decoder consumed a different number of bytes");
            let ok = match (&val, &back) { ($a, $b) => $eq };
            assert!(ok, "round trip changed the value");
            std::mem::forget(val);
            std::mem::forget(back);
        }
    };
}

leaf_roundtrip!(q_c01_leaf_rt_u32, 8, 6, ValueKind::U32, u32, |v| Value::U32(v), |a, b| matches!((a, b), (Value::U32(x), Value::U32(y)) if x == y));

#[kani::proof]
#[kani::unwind(8)]
fn q_c07_leaf_u32() {
    let p: [u8; 5] = kani::any();
    let arr = [ValueKind::U32 as u8, p[0], p[1], p[2], p[3], p[4]];
    let len: usize = kani::any();
    kani::assume(len >= 1 && len <= 6);
    let mut rd: &[u8] = &arr[..len];
    let r1 = Deserializer::new(&mut rd, 0).unwrap().skip();
    let c1 = len - rd.len();
    let mut rd2: &[u8] = &arr[..len];
    let r2 = Value::deserialize(Deserializer::new(&mut rd2, 0).unwrap());
    let c2 = len - rd2.len();
    assert!(r1.is_ok() == r2.is_ok());
    if r1.is_ok() { assert!(c1 == c2); }
    kani::cover!(r1.is_ok() && c1 == 2);
    kani::cover!(r1.is_ok() && c1 == 6);
    kani::cover!(r1.is_err());
    std::mem::forget(r2);
}
