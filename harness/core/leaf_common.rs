//! Helpers of the leaf-kind harnesses (no harnesses in here).
use super::*;

pub(crate) fn varint_len(v: u64, n: u64) -> usize {
    if v <= 255 - n {
        1
    } else {
        let mut k = 1;
        let mut x = v >> 8;
        while x != 0 {
            k += 1;
            x >>= 8;
        }
        1 + k
    }
}

pub(crate) fn zz64(n: i64) -> u64 {
    ((n as u64) << 1) ^ ((n >> 63) as u64)
}

/// Independent reference of the wire format: length of a leaf value starting at `b[0]`, or None
/// if `b` is too short.
pub(crate) fn ref_leaf_len(kind: ValueKind, b: &[u8]) -> Option<usize> {
    fn varint(b: &[u8], n: usize) -> Option<usize> {
        if b.is_empty() {
            return None;
        }
        let first = b[0] as usize;
        let need = if first > 255 - n { 1 + (first + n - 255) } else { 1 };
        if b.len() >= need {
            Some(need)
        } else {
            None
        }
    }
    fn fixed(b: &[u8], n: usize) -> Option<usize> {
        if b.len() >= n {
            Some(n)
        } else {
            None
        }
    }
    if b.is_empty() {
        return None;
    }
    let p = &b[1..];
    let pl = match kind {
        ValueKind::None => Some(0),
        ValueKind::Bool | ValueKind::U8 | ValueKind::I8 => fixed(p, 1),
        ValueKind::U16 | ValueKind::I16 => varint(p, 2),
        ValueKind::U32 | ValueKind::I32 => varint(p, 4),
        ValueKind::U64 | ValueKind::I64 => varint(p, 8),
        ValueKind::F32 => fixed(p, 4),
        ValueKind::F64 => fixed(p, 8),
        ValueKind::Uuid | ValueKind::Sender | ValueKind::Receiver => fixed(p, 16),
        ValueKind::ObjectId => fixed(p, 32),
        ValueKind::ServiceId => fixed(p, 64),
        _ => unreachable!(),
    };
    pl.map(|l| l + 1)
}

/// All entry points on one prefix `b` (concrete length) whose first byte is the literal kind.
pub(crate) fn check_leaf_prefix(kind: ValueKind, b: &[u8], depth: u8) {
    let expect = ref_leaf_len(kind, b);
    let (rs, cs) = run_skip(b, depth);
    assert!(rs.is_ok() == expect.is_some(), "skip accepts exactly the well-formed prefixes");
    if let Some(e) = expect {
        assert!(cs == e, "skip consumed a different length than the format says");
    } else {
        assert!(rs == Err(DeserializeError::UnexpectedEoi));
    }
    let (rv, cv) = run_value(b, depth);
    assert!(rv.is_ok() == rs.is_ok(), "decode and skip accept the same inputs");
    if rv.is_ok() {
        assert!(cv == cs, "decode and skip consume the same number of bytes");
    }
    std::mem::forget(rv);
    assert!(run_len(b, depth) == rs.map(|()| cs), "len() equals what skip consumes");
    let (rsp, csp) = run_split(b, depth);
    match (rs, rsp) {
        (Ok(()), Ok(n)) => assert!(n == cs && csp == cs, "split_off yields exactly the skipped bytes"),
        (Err(_), Err(_)) => assert!(csp == 0, "a failed split_off consumes nothing"),
        _ => panic!("split_off and skip disagree"),
    }
    if !b.is_empty() {
        let mut rd = b;
        assert!(Deserializer::new(&mut rd, depth).unwrap().peek_value_kind() == Ok(kind));
    }
}

/// Strings: skip does not validate UTF-8, decode does; otherwise they agree. Length prefix is a
/// literal (0..=3, and the two-byte varint form `[252, n]`), content symbolic.
pub(crate) fn check_string(arr: &[u8], content_at: usize, n: usize) {
    check_string_at(arr, content_at, n, 0);
    check_string_at(arr, content_at, n, 31);
}

fn check_string_at(arr: &[u8], content_at: usize, n: usize, depth: u8) {
    // decoding a string goes through bytes::Bytes -> Vec -> String::from_utf8, which CBMC does not
    // finish; checked here: skip / len / split_off accept exactly the strings whose announced
    // length fits, whatever the content bytes are (no UTF-8 validation)
    let (rs, cs) = run_skip(arr, depth);
    let fits = arr.len() >= content_at + n;
    assert!(rs.is_ok() == fits);
    if fits {
        assert!(cs == content_at + n);
    }
    assert!(run_len(arr, depth) == rs.map(|()| cs));
}

