//! C14 (packetizer part): feeding the concatenation of frames in arbitrary pieces, through either
//! input interface, yields exactly the frames, in order, each only once it is complete. Frame
//! lengths are literals (positions concrete), frame contents symbolic; every split point of the
//! byte stream is enumerated concretely inside the harness.
use super::*;
use crate::message::Packetizer;

/// two frames: [6,0,0,0,30,x] (Sync with a one-byte serial) and [5,0,0,0,2] (Shutdown), then a
/// third [7,0,0,0,19,y,0]
fn stream(x: u8, y: u8) -> [u8; 18] {
    [6, 0, 0, 0, 30, x, 5, 0, 0, 0, 2, 7, 0, 0, 0, 19, y, 0]
}

/// drains all complete frames, checking them against the expected sequence starting at `*next`
fn drain(p: &mut Packetizer, s: &[u8; 18], next: &mut usize, fed: usize) {
    let starts = [0usize, 6, 11];
    let ends = [6usize, 11, 18];
    loop {
        match p.next_message() {
            Some(m) => {
                assert!(*next < 3, "more frames than were fed");
                let (a, b) = (starts[*next], ends[*next]);
                assert!(b <= fed, "a frame was delivered before it was complete");
                assert!(m.len() == b - a, "frame length differs");
                let mut i = 0;
                while i < b - a {
                    assert!(m[i] == s[a + i], "frame bytes differ (lost or duplicated bytes)");
                    i += 1;
                }
                *next += 1;
            }
            None => break,
        }
    }
    // every frame that is complete has been delivered
    let complete = if fed >= 18 { 3 } else if fed >= 11 { 2 } else if fed >= 6 { 1 } else { 0 };
    assert!(*next == complete, "a complete frame was withheld");
}

/// the zero-copy interface: write into spare_capacity_mut as much as fits (the slice is only
/// guaranteed to be non-empty), then bytes_written; repeat until everything is fed
fn feed_spare(p: &mut Packetizer, bytes: &[u8]) {
    let mut off = 0;
    let mut rounds = 0;
    while off < bytes.len() {
        let dst = p.spare_capacity_mut();
        assert!(!dst.is_empty(), "spare capacity is never empty");
        let n = if dst.len() < bytes.len() - off { dst.len() } else { bytes.len() - off };
        let mut i = 0;
        while i < n {
            dst[i].write(bytes[off + i]);
            i += 1;
        }
        unsafe { p.bytes_written(n) };
        off += n;
        rounds += 1;
        assert!(rounds <= 18);
    }
}

fn two_pieces(k: usize, spare: bool) {
    let s = stream(kani::any(), kani::any());
    let mut p = Packetizer::new();
    let mut next = 0;
    if spare {
        feed_spare(&mut p, &s[..k]);
    } else {
        p.extend_from_slice(&s[..k]);
    }
    drain(&mut p, &s, &mut next, k);
    if spare {
        feed_spare(&mut p, &s[k..]);
    } else {
        p.extend_from_slice(&s[k..]);
    }
    drain(&mut p, &s, &mut next, 18);
    assert!(next == 3);
}

macro_rules! splits {
    ($($name:ident = ($k:expr, $spare:expr);)*) => {$(
        #[kani::proof]
        #[kani::unwind(24)]
        fn $name() {
            two_pieces($k, $spare);
        }
    )*};
}

// every split point of the 18-byte stream through extend_from_slice, a selection through the
// zero-copy interface (one CBMC run per split point: many packetizers in one run do not finish)
splits! {
    q_c14_split_03 = (3, false);
    q_c14_split_04 = (4, false);
    q_c14_split_06 = (6, false);
    q_c14_split_11 = (11, false);
    q_c14_split_12 = (12, false);
    q_c14_split_17 = (17, false);
}
#[cfg(not(verif_quick))]
splits! {
    q_c14_split_00 = (0, false);
    q_c14_split_01 = (1, false);
    q_c14_split_02 = (2, false);
    q_c14_split_05 = (5, false);
    q_c14_split_07 = (7, false);
    q_c14_split_08 = (8, false);
    q_c14_split_09 = (9, false);
    q_c14_split_10 = (10, false);
    q_c14_split_13 = (13, false);
    q_c14_split_14 = (14, false);
    q_c14_split_15 = (15, false);
    q_c14_split_16 = (16, false);
    q_c14_split_18 = (18, false);
}

// ---------------------------------------------------------------------------------------------
// the zero-copy interface (spare_capacity_mut + bytes_written), alone and mixed with
// extend_from_slice. spare_capacity_mut reserves 64 KiB: beyond CBMC's field-sensitivity limit the
// buffer contents (and with them the parsed length prefix) stop being constants for symbolic
// execution, so these harnesses use a shorter stream: two 5-byte frames.
// ---------------------------------------------------------------------------------------------
fn stream2(x: u8, y: u8) -> [u8; 10] {
    [5, 0, 0, 0, x, 5, 0, 0, 0, y]
}

fn drain2(p: &mut Packetizer, s: &[u8; 10], next: &mut usize, fed: usize) {
    loop {
        match p.next_message() {
            Some(m) => {
                assert!(*next < 2, "more frames than were fed");
                let a = *next * 5;
                assert!(a + 5 <= fed, "a frame was delivered before it was complete");
                assert!(m.len() == 5, "frame length differs");
                assert!(m[0] == 5 && m[1] == 0 && m[2] == 0 && m[3] == 0 && m[4] == s[a + 4], "frame bytes differ (lost or duplicated bytes)");
                *next += 1;
            }
            None => break,
        }
    }
    let complete = if fed >= 10 { 2 } else if fed >= 5 { 1 } else { 0 };
    assert!(*next == complete, "a complete frame was withheld");
}

fn pieces2(k: usize, first_spare: bool, second_spare: bool) {
    let s = stream2(kani::any(), kani::any());
    let mut p = Packetizer::new();
    let mut next = 0;
    if first_spare {
        feed_spare(&mut p, &s[..k]);
    } else {
        p.extend_from_slice(&s[..k]);
    }
    drain2(&mut p, &s, &mut next, k);
    if second_spare {
        feed_spare(&mut p, &s[k..]);
    } else {
        p.extend_from_slice(&s[k..]);
    }
    drain2(&mut p, &s, &mut next, 10);
    assert!(next == 2);
}

macro_rules! spare_splits {
    ($($name:ident = ($k:expr, $a:expr, $b:expr);)*) => {$(
        #[kani::proof]
        #[kani::unwind(14)]
        fn $name() {
            pieces2($k, $a, $b);
        }
    )*};
}

// not registered: two frames through the zero-copy interface run the SAT back end out of memory
// (14 GB) since the runs no longer share the machine with nothing else; one frame split anywhere
// through the zero-copy interface (below) is decided
#[cfg(verif_experimental)]
spare_splits! {
    q_c14_extend_spare_02 = (2, false, true);
    q_c14_spare_spare_02 = (2, true, true);
    q_c14_spare_extend_02 = (2, true, false);
}

/// one frame through the zero-copy interface, split anywhere (also inside / right after the length
/// prefix, which exercises the `len: Some(_)` branch of spare_capacity_mut)
fn pieces1(k: usize, first_spare: bool, second_spare: bool) {
    let x: u8 = kani::any();
    let s = [5u8, 0, 0, 0, x];
    let mut p = Packetizer::new();
    if first_spare {
        feed_spare(&mut p, &s[..k]);
    } else {
        p.extend_from_slice(&s[..k]);
    }
    if k < 5 {
        assert!(p.next_message().is_none(), "a frame was delivered before it was complete");
    }
    if second_spare {
        feed_spare(&mut p, &s[k..]);
    } else {
        p.extend_from_slice(&s[k..]);
    }
    match p.next_message() {
        Some(m) => assert!(m.len() == 5 && m[0] == 5 && m[1] == 0 && m[2] == 0 && m[3] == 0 && m[4] == x, "frame bytes differ"),
        None => panic!("a complete frame was withheld"),
    }
    assert!(p.next_message().is_none(), "more frames than were fed");
}

macro_rules! one_frame_splits {
    ($($name:ident = ($k:expr, $a:expr, $b:expr);)*) => {$(
        #[kani::proof]
        #[kani::unwind(8)]
        fn $name() {
            pieces1($k, $a, $b);
        }
    )*};
}

one_frame_splits! {
    q_c14_one_spare_spare_1 = (1, true, true);
    q_c14_one_extend_spare_4 = (4, false, true);
    q_c14_one_spare_extend_1 = (1, true, false);
}
#[cfg(not(verif_quick))]
one_frame_splits! {
    q_c14_one_spare_spare_0 = (0, true, true);
    q_c14_one_spare_spare_3 = (3, true, true);
    q_c14_one_extend_spare_1 = (1, false, true);
    q_c14_one_extend_spare_0 = (0, false, true);
    q_c14_one_extend_spare_2 = (2, false, true);
    q_c14_one_extend_spare_3 = (3, false, true);
    q_c14_one_extend_spare_5 = (5, false, true);
}

/// three pieces through extend_from_slice
fn three_pieces(k1: usize, k2: usize) {
    let s = stream(kani::any(), kani::any());
    let mut p = Packetizer::new();
    let mut next = 0;
    p.extend_from_slice(&s[..k1]);
    drain(&mut p, &s, &mut next, k1);
    p.extend_from_slice(&s[k1..k2]);
    drain(&mut p, &s, &mut next, k2);
    p.extend_from_slice(&s[k2..]);
    drain(&mut p, &s, &mut next, 18);
    assert!(next == 3);
}

macro_rules! three {
    ($($name:ident = ($a:expr, $b:expr);)*) => {$(
        #[kani::proof]
        #[kani::unwind(24)]
        fn $name() {
            three_pieces($a, $b);
        }
    )*};
}

three! {
    q_c14_three_04_06 = (4, 6);
}
#[cfg(not(verif_quick))]
three! {
    q_c14_three_02_09 = (2, 9);
    q_c14_three_05_12 = (5, 12);
}

/// byte by byte: one frame and the first byte of the next
#[kani::proof]
#[kani::unwind(10)]
fn q_c14_byte_by_byte() {
    let x: u8 = kani::any();
    let s = [5u8, 0, 0, 0, x, 6];
    let mut p = Packetizer::new();
    let mut k = 0;
    let mut got = 0;
    while k < 6 {
        p.extend_from_slice(&s[k..k + 1]);
        match p.next_message() {
            Some(m) => {
                assert!(k == 4, "a frame was delivered before it was complete (or twice)");
                assert!(m.len() == 5 && m[4] == x);
                got += 1;
            }
            None => assert!(k != 4, "a complete frame was withheld"),
        }
        k += 1;
    }
    assert!(got == 1);
}

#[cfg(verif_replay)]
include!("/verif/.cache/replay/verif__packetizer.rs");
