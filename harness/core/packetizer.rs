//! C14 (packetizer part): feeding the concatenation of frames in arbitrary pieces, through either
//! input interface, yields exactly the frames, in order, each only once it is complete. Frame
//! lengths are literals (positions concrete), frame contents symbolic; every split point of the
//! byte stream is enumerated concretely inside the harness.
use super::*;
use crate::message::Packetizer;

/// two frames: [6,0,0,0,30,x] (Sync with a one-byte serial) and [5,0,0,0,2] (Shutdown), then a
/// third [7,0,0,0,19,y,0]
fn stream(x: u8, y: u8) -> [u8; 18] {
    [6, 0, 0, 0, 30, x, 5, 0, 0, 0, 2, 7, 0, 0, 0, 19, y, 0]
}

/// drains all complete frames, checking them against the expected sequence starting at `*next`
fn drain(p: &mut Packetizer, s: &[u8; 18], next: &mut usize, fed: usize) {
    let starts = [0usize, 6, 11];
    let ends = [6usize, 11, 18];
    loop {
        match p.next_message() {
            Some(m) => {
                assert!(*next < 3, "more frames than were fed");
                let (a, b) = (starts[*next], ends[*next]);
                assert!(b <= fed, "a frame was delivered before it was complete");
                assert!(m.len() == b - a, "frame length differs");
                let mut i = 0;
                while i < b - a {
                    assert!(m[i] == s[a + i], "frame bytes differ (lost or duplicated bytes)");
                    i += 1;
                }
                *next += 1;
            }
            None => break,
        }
    }
    // every frame that is complete has been delivered
    let complete = if fed >= 18 { 3 } else if fed >= 11 { 2 } else if fed >= 6 { 1 } else { 0 };
    assert!(*next == complete, "a complete frame was withheld");
}

#[kani::proof]
#[kani::unwind(24)]
fn q_c14_two_pieces_every_split() {
    let s = stream(kani::any(), kani::any());
    let mut k = 0;
    while k <= 18 {
        let mut p = Packetizer::new();
        let mut next = 0;
        p.extend_from_slice(&s[..k]);
        drain(&mut p, &s, &mut next, k);
        p.extend_from_slice(&s[k..]);
        drain(&mut p, &s, &mut next, 18);
        assert!(next == 3);
        k += 1;
    }
}

#[kani::proof]
#[kani::unwind(24)]
fn q_c14_byte_by_byte() {
    let s = stream(kani::any(), kani::any());
    let mut p = Packetizer::new();
    let mut next = 0;
    let mut k = 0;
    while k < 18 {
        p.extend_from_slice(&s[k..k + 1]);
        drain(&mut p, &s, &mut next, k + 1);
        k += 1;
    }
    assert!(next == 3);
}

/// the zero-copy interface: write into spare_capacity_mut, then bytes_written
fn feed_spare(p: &mut Packetizer, bytes: &[u8]) {
    let dst = p.spare_capacity_mut();
    assert!(dst.len() >= bytes.len() && !dst.is_empty(), "spare capacity is never empty");
    let mut i = 0;
    while i < bytes.len() {
        dst[i].write(bytes[i]);
        i += 1;
    }
    unsafe { p.bytes_written(bytes.len()) };
}

#[kani::proof]
#[kani::unwind(24)]
fn q_c14_spare_capacity_interface() {
    let s = stream(kani::any(), kani::any());
    let splits = [3usize, 6, 8, 13];
    let mut j = 0;
    while j < 4 {
        let k = splits[j];
        let mut p = Packetizer::new();
        let mut next = 0;
        feed_spare(&mut p, &s[..k]);
        drain(&mut p, &s, &mut next, k);
        feed_spare(&mut p, &s[k..]);
        drain(&mut p, &s, &mut next, 18);
        assert!(next == 3);
        j += 1;
    }
}

/// mixing both interfaces on one stream
#[kani::proof]
#[kani::unwind(24)]
fn q_c14_mixed_interfaces() {
    let s = stream(kani::any(), kani::any());
    let mut p = Packetizer::new();
    let mut next = 0;
    p.extend_from_slice(&s[..2]);
    drain(&mut p, &s, &mut next, 2);
    feed_spare(&mut p, &s[2..9]);
    drain(&mut p, &s, &mut next, 9);
    p.extend_from_slice(&s[9..12]);
    drain(&mut p, &s, &mut next, 12);
    feed_spare(&mut p, &s[12..]);
    drain(&mut p, &s, &mut next, 18);
    assert!(next == 3);
}

#[cfg(verif_replay)]
include!("/verif/.cache/replay/verif__packetizer.rs");
