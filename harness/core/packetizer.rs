//! C14 (packetizer part): feeding the concatenation of frames in arbitrary pieces, through either
//! input interface, yields exactly the frames, in order, each only once it is complete. Frame
//! lengths are literals (positions concrete), frame contents symbolic; every split point of the
//! byte stream is enumerated concretely inside the harness.
use super::*;
use crate::message::Packetizer;

/// two frames: [6,0,0,0,30,x] (Sync with a one-byte serial) and [5,0,0,0,2] (Shutdown), then a
/// third [7,0,0,0,19,y,0]
fn stream(x: u8, y: u8) -> [u8; 18] {
    [6, 0, 0, 0, 30, x, 5, 0, 0, 0, 2, 7, 0, 0, 0, 19, y, 0]
}

/// drains all complete frames, checking them against the expected sequence starting at `*next`
fn drain(p: &mut Packetizer, s: &[u8; 18], next: &mut usize, fed: usize) {
    let starts = [0usize, 6, 11];
    let ends = [6usize, 11, 18];
    loop {
        match p.next_message() {
            Some(m) => {
                assert!(*next < 3, "more frames than were fed");
                let (a, b) = (starts[*next], ends[*next]);
                assert!(b <= fed, "a frame was delivered before it was complete");
                assert!(m.len() == b - a, "frame length differs");
                let mut i = 0;
                while i < b - a {
                    assert!(m[i] == s[a + i], "frame bytes differ (lost or duplicated bytes)");
                    i += 1;
                }
                *next += 1;
            }
            None => break,
        }
    }
    // every frame that is complete has been delivered
    let complete = if fed >= 18 { 3 } else if fed >= 11 { 2 } else if fed >= 6 { 1 } else { 0 };
    assert!(*next == complete, "a complete frame was withheld");
}

/// the zero-copy interface: write into spare_capacity_mut as much as fits (the slice is only
/// guaranteed to be non-empty), then bytes_written; repeat until everything is fed
fn feed_spare(p: &mut Packetizer, bytes: &[u8]) {
    let mut off = 0;
    let mut rounds = 0;
    while off < bytes.len() {
        let dst = p.spare_capacity_mut();
        assert!(!dst.is_empty(), "spare capacity is never empty");
        let n = if dst.len() < bytes.len() - off { dst.len() } else { bytes.len() - off };
        let mut i = 0;
        while i < n {
            dst[i].write(bytes[off + i]);
            i += 1;
        }
        unsafe { p.bytes_written(n) };
        off += n;
        rounds += 1;
        assert!(rounds <= 18);
    }
}

fn two_pieces(k: usize, spare: bool) {
    let s = stream(kani::any(), kani::any());
    let mut p = Packetizer::new();
    let mut next = 0;
    if spare {
        feed_spare(&mut p, &s[..k]);
    } else {
        p.extend_from_slice(&s[..k]);
    }
    drain(&mut p, &s, &mut next, k);
    if spare {
        feed_spare(&mut p, &s[k..]);
    } else {
        p.extend_from_slice(&s[k..]);
    }
    drain(&mut p, &s, &mut next, 18);
    assert!(next == 3);
}

macro_rules! splits {
    ($($name:ident = ($k:expr, $spare:expr);)*) => {$(
        #[kani::proof]
        #[kani::unwind(24)]
        fn $name() {
            two_pieces($k, $spare);
        }
    )*};
}

// every split point of the 18-byte stream through extend_from_slice, a selection through the
// zero-copy interface (one CBMC run per split point: many packetizers in one run do not finish)
splits! {
    q_c14_split_00 = (0, false);
    q_c14_split_01 = (1, false);
    q_c14_split_02 = (2, false);
    q_c14_split_03 = (3, false);
    q_c14_split_04 = (4, false);
    q_c14_split_05 = (5, false);
    q_c14_split_06 = (6, false);
    q_c14_split_07 = (7, false);
    q_c14_split_08 = (8, false);
    q_c14_split_09 = (9, false);
    q_c14_split_10 = (10, false);
    q_c14_split_11 = (11, false);
    q_c14_split_12 = (12, false);
    q_c14_split_13 = (13, false);
    q_c14_split_14 = (14, false);
    q_c14_split_15 = (15, false);
    q_c14_split_16 = (16, false);
    q_c14_split_17 = (17, false);
    q_c14_split_18 = (18, false);
    q_c14_spare_split_03 = (3, true);
    q_c14_spare_split_06 = (6, true);
    q_c14_spare_split_08 = (8, true);
    q_c14_spare_split_13 = (13, true);
}

/// three pieces / mixing both interfaces on one stream
#[kani::proof]
#[kani::unwind(24)]
fn q_c14_mixed_interfaces() {
    let s = stream(kani::any(), kani::any());
    let mut p = Packetizer::new();
    let mut next = 0;
    p.extend_from_slice(&s[..2]);
    drain(&mut p, &s, &mut next, 2);
    feed_spare(&mut p, &s[2..9]);
    drain(&mut p, &s, &mut next, 9);
    p.extend_from_slice(&s[9..]);
    drain(&mut p, &s, &mut next, 18);
    assert!(next == 3);
}

/// byte by byte over the first two frames
#[kani::proof]
#[kani::unwind(24)]
fn q_c14_byte_by_byte() {
    let s = stream(kani::any(), kani::any());
    let mut p = Packetizer::new();
    let mut next = 0;
    let mut k = 0;
    while k < 11 {
        p.extend_from_slice(&s[k..k + 1]);
        let complete = if k + 1 >= 11 { 2 } else if k + 1 >= 6 { 1 } else { 0 };
        loop {
            match p.next_message() {
                Some(m) => {
                    assert!(next < complete, "a frame was delivered before it was complete");
                    assert!(m.len() == if next == 0 { 6 } else { 5 });
                    next += 1;
                }
                None => break,
            }
        }
        assert!(next == complete, "a complete frame was withheld");
        k += 1;
    }
}

#[cfg(verif_replay)]
include!("/verif/.cache/replay/verif__packetizer.rs");
