//! scratch probes (not registered)
use super::*;
use crate::message::{CreateObject, Message, MessageOps, Sync, CallFunction};
use bytes::BytesMut;

#[kani::proof]
#[kani::unwind(20)]
fn s1_sync_roundtrip_via_message() {
    let serial: u32 = kani::any();
    let m = Message::Sync(Sync { serial });
    let out = m.clone().serialize_message().unwrap();
    let back = Message::deserialize_message(out);
    assert!(back == Ok(m));
}

#[kani::proof]
#[kani::unwind(20)]
fn s2_create_object_typed_roundtrip() {
    let serial: u32 = kani::any();
    let u: [u8; 16] = kani::any();
    let m = CreateObject { serial, uuid: ObjectUuid(Uuid::from_bytes(u)) };
    let out = m.serialize_message().unwrap();
    let n = out.len();
    assert!(n >= 22 && n <= 26 && out[0] as usize == n && out[1] == 0 && out[4] == 3);
    let back = CreateObject::deserialize_message(out);
    assert!(back == Ok(m));
}

#[kani::proof]
#[kani::unwind(20)]
fn s3_call_function_typed_roundtrip() {
    let serial: u32 = kani::any();
    let function: u32 = kani::any();
    let c: [u8; 16] = kani::any();
    let x: u8 = kani::any();
    let m = CallFunction { serial, service_cookie: ServiceCookie(Uuid::from_bytes(c)), function, value: SerializedValue::serialize(x).unwrap() };
    let out = m.clone().serialize_message().unwrap();
    let n = out.len();
    assert!(out[0] as usize == n && out[4] == 10);
    let back = CallFunction::deserialize_message(out);
    match back {
        Ok(b) => assert!(b.serial == serial && b.function == function && b.service_cookie == m.service_cookie && b.value.len() == 2 && b.value[1] == x),
        Err(_) => panic!("round trip failed"),
    }
}
