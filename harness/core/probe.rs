//! scratch probes (not registered)
use super::shape_common::*;
use super::*;

#[kani::proof]
#[kani::unwind(8)]
fn p1_wellformed_symd() {
    let x: u8 = kani::any();
    let d = any_depth();
    let enc = [SOME, U8, x];
    check_wellformed(&enc, 2, d);
}

#[kani::proof]
#[kani::unwind(8)]
fn p2_value_symd() {
    let x: u8 = kani::any();
    let d = any_depth();
    let enc = [SOME, U8, x];
    let val = Value::Some(Box::new(Value::U8(x)));
    check_value(&enc, 2, d, &val);
    std::mem::forget(val);
}

#[kani::proof]
#[kani::unwind(8)]
fn p3_ser_symd() {
    let x: u8 = kani::any();
    let d = any_depth();
    let enc = [SOME, U8, x];
    let val = Value::Some(Box::new(Value::U8(x)));
    check_serialized(&enc, 2, d, |s| s.serialize(&val));
    std::mem::forget(val);
}

#[kani::proof]
#[kani::unwind(8)]
fn p4_all_d0() {
    let x: u8 = kani::any();
    let d = 0;
    let enc = [SOME, U8, x];
    let val = Value::Some(Box::new(Value::U8(x)));
    check_wellformed(&enc, 2, d);
    check_value(&enc, 2, d, &val);
    check_serialized(&enc, 2, d, |s| s.serialize(&val));
    std::mem::forget(val);
}

#[kani::proof]
#[kani::unwind(8)]
fn p5_ser_typed_symd() {
    let x: u8 = kani::any();
    let d = any_depth();
    let enc = [SOME, U8, x];
    check_serialized(&enc, 2, d, |s| s.serialize_some::<tags::U8>(x));
}
