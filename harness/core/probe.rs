//! scratch probes (not registered)
use super::*;
use crate::message::Packetizer;

/// two frames: [6,0,0,0,30,x] (Sync with a one-byte serial) and [5,0,0,0,2] (Shutdown), then a
/// third [7,0,0,0,19,y,0]
fn stream(x: u8, y: u8) -> [u8; 18] {
    [6, 0, 0, 0, 30, x, 5, 0, 0, 0, 2, 7, 0, 0, 0, 19, y, 0]
}

/// drains all complete frames, checking them against the expected sequence starting at `*next`
fn drain(p: &mut Packetizer, s: &[u8; 18], next: &mut usize, fed: usize) {
    let starts = [0usize, 6, 11];
    let ends = [6usize, 11, 18];
    loop {
        match p.next_message() {
            Some(m) => {
                assert!(*next < 3, "more frames than were fed");
                let (a, b) = (starts[*next], ends[*next]);
                assert!(b <= fed, "a frame was delivered before it was complete");
                assert!(m.len() == b - a, "frame length differs");
                let mut i = 0;
                while i < b - a {
                    assert!(m[i] == s[a + i], "frame bytes differ (lost or duplicated bytes)");
                    i += 1;
                }
                *next += 1;
            }
            None => break,
        }
    }
    // every frame that is complete has been delivered
    let complete = if fed >= 18 { 3 } else if fed >= 11 { 2 } else if fed >= 6 { 1 } else { 0 };
    assert!(*next == complete, "a complete frame was withheld");
}

/// the zero-copy interface: write into spare_capacity_mut as much as fits (the slice is only
/// guaranteed to be non-empty), then bytes_written; repeat until everything is fed
fn feed_spare(p: &mut Packetizer, bytes: &[u8]) {
    let mut off = 0;
    let mut rounds = 0;
    while off < bytes.len() {
        let dst = p.spare_capacity_mut();
        assert!(!dst.is_empty(), "spare capacity is never empty");
        let n = if dst.len() < bytes.len() - off { dst.len() } else { bytes.len() - off };
        let mut i = 0;
        while i < n {
            dst[i].write(bytes[off + i]);
            i += 1;
        }
        unsafe { p.bytes_written(n) };
        off += n;
        rounds += 1;
        assert!(rounds <= 18);
    }
}


fn pieces(k: usize, first_spare: bool, second_spare: bool) {
    let s = stream(kani::any(), kani::any());
    let mut p = Packetizer::new();
    let mut next = 0;
    if first_spare { feed_spare(&mut p, &s[..k]); } else { p.extend_from_slice(&s[..k]); }
    drain(&mut p, &s, &mut next, k);
    if second_spare { feed_spare(&mut p, &s[k..]); } else { p.extend_from_slice(&s[k..]); }
    drain(&mut p, &s, &mut next, 18);
    assert!(next == 3);
}

macro_rules! pp { ($($n:ident = ($k:expr,$a:expr,$b:expr);)*) => {$(
    #[kani::proof]
    #[kani::unwind(24)]
    fn $n() { pieces($k,$a,$b); }
)*}; }
pp! {
    p_es_08 = (8, false, true);
    p_es_13 = (13, false, true);
    p_es_03 = (3, false, true);
    p_se_08 = (8, true, false);
    p_se_13 = (13, true, false);
    p_se_03 = (3, true, false);
    p_ss_03 = (3, true, true);
}
