//! scratch probes (not registered): cost of single operations
use super::shape_common::*;
use super::*;

const VEC2: u8 = ValueKind::Vec2 as u8;

macro_rules! probe {
    ($name:ident, $unwind:expr, |$x:ident, $y:ident| $body:block) => {
        #[kani::proof]
        #[kani::unwind($unwind)]
        fn $name() {
            let $x: u8 = kani::any();
            let $y: u8 = kani::any();
            $body
        }
    };
}

probe!(q1_skip_vec2, 10, |x, y| { let e = [VEC2, SOME, U8, x, SOME, U8, y, NONE]; let (r, c) = run_skip(&e, 0); assert!(r.is_ok() && c == 8); });
probe!(q2_value_vec2, 10, |x, y| { let e = [VEC2, SOME, U8, x, SOME, U8, y, NONE]; let (r, c) = run_value(&e, 0); assert!(r.is_ok() && c == 8); std::mem::forget(r); });
probe!(q3_value_nested, 10, |x, y| { let e = [VEC2, SOME, VEC2, SOME, U8, x, NONE, NONE]; let (r, c) = run_value(&e, 0); assert!(r.is_ok() && c == 8); std::mem::forget(r); });
probe!(q4_skip_symd, 10, |x, y| {
    let e = [SOME, U8, x];
    let d: u8 = kani::any();
    kani::assume(d <= 32);
    let (r, c) = run_skip(&e, d);
    assert!(r.is_ok() == (d <= 30));
});
probe!(q5_ser_value_some, 10, |x, y| {
    let e = [SOME, U8, x];
    let val = Value::Some(Box::new(Value::U8(x)));
    check_serialized_at(&e, 2, 0, &|s: Serializer| s.serialize(&val));
    std::mem::forget(val);
});
probe!(q6_check_value_some, 10, |x, y| {
    let e = [SOME, U8, x];
    let val = Value::Some(Box::new(Value::U8(x)));
    check_value_at(&e, 2, 0, &val);
    std::mem::forget(val);
});
probe!(q7_skip_vec2_symd, 10, |x, y| {
    let e = [VEC2, SOME, U8, x, NONE];
    let d: u8 = kani::any();
    kani::assume(d <= 32);
    let (r, c) = run_skip(&e, d);
    assert!(r.is_ok() == (d <= 30));
});
