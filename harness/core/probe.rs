//! scratch probes (not registered)
use super::shape_common::*;
use super::*;

const VEC2: u8 = ValueKind::Vec2 as u8;

fn via_question_mark(rd: &mut &[u8]) -> Result<(), DeserializeError> {
    Deserializer::new(rd, 0).unwrap().deserialize_vec2()?.skip()
}

#[kani::proof]
#[kani::unwind(4)]
fn o1_question_mark() {
    let e = [VEC2, NONE];
    let mut rd: &[u8] = &e;
    assert!(via_question_mark(&mut rd).is_ok() && rd.is_empty());
}

#[kani::proof]
#[kani::unwind(10)]
fn o2_skip_vec2() {
    let x: u8 = kani::any();
    let y: u8 = kani::any();
    let e = [VEC2, SOME, U8, x, SOME, U8, y, NONE];
    let (r, c) = run_skip(&e, 0);
    assert!(r.is_ok() && c == 8);
}
