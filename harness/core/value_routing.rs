//! C01: the map / set arms of `impl Serialize for &Value` (core/src/value.rs) route every variant to
//! the serializer of its own key tag: an *empty* container of each of the 20 keyed variants
//! serializes to exactly `[<kind of that variant in the current encoding>, None]`. (Populated
//! `std::collections::HashMap`s cannot be executed symbolically, DESIGN section 1; the empty ones
//! are built with fixed hasher keys, the real `RandomState::new` asks the OS for randomness.)
use super::*;
use std::collections::{HashMap, HashSet};

fn fixed_random_state() -> std::collections::hash_map::RandomState {
    // RandomState { k0: u64, k1: u64 }
    unsafe { std::mem::transmute::<(u64, u64), std::collections::hash_map::RandomState>((0, 0)) }
}

fn check(v: Value, kind: ValueKind) {
    let ser = match SerializedValue::serialize(&v) {
        Ok(s) => s,
        Err(_) => panic!("an empty container failed to serialize"),
    };
    let b: &[u8] = &ser;
    assert!(b.len() == 2, "kind byte and terminator");
    assert!(b[0] == kind as u8, "the variant is written with the kind of its own key type");
    assert!(b[1] == 0, "terminated by None");
    let (rs, cs) = run_skip(&[kind as u8, 0], 0);
    assert!(rs.is_ok() && cs == 2);
    std::mem::forget(v);
}

macro_rules! routing {
    ($($name:ident = $variant:ident, $kind:ident, $coll:ident;)*) => {$(
        #[kani::proof]
        #[kani::unwind(6)]
        fn $name() {
            check(Value::$variant($coll::with_hasher(fixed_random_state())), ValueKind::$kind);
        }
    )*};
}

routing! {
    q_c01_route_u16_map = U16Map, U16Map2, HashMap;
    q_c01_route_string_set = StringSet, StringSet2, HashSet;
    q_c01_route_uuid_map = UuidMap, UuidMap2, HashMap;
    q_c01_route_i64_set = I64Set, I64Set2, HashSet;
}
routing! {
    q_c01_route_u8_map = U8Map, U8Map2, HashMap;
    q_c01_route_i8_map = I8Map, I8Map2, HashMap;
    q_c01_route_i16_map = I16Map, I16Map2, HashMap;
    q_c01_route_u32_map = U32Map, U32Map2, HashMap;
    q_c01_route_i32_map = I32Map, I32Map2, HashMap;
    q_c01_route_u64_map = U64Map, U64Map2, HashMap;
    q_c01_route_i64_map = I64Map, I64Map2, HashMap;
    q_c01_route_string_map = StringMap, StringMap2, HashMap;
    q_c01_route_u8_set = U8Set, U8Set2, HashSet;
    q_c01_route_i8_set = I8Set, I8Set2, HashSet;
    q_c01_route_u16_set = U16Set, U16Set2, HashSet;
    q_c01_route_i16_set = I16Set, I16Set2, HashSet;
    q_c01_route_u32_set = U32Set, U32Set2, HashSet;
    q_c01_route_i32_set = I32Set, I32Set2, HashSet;
    q_c01_route_u64_set = U64Set, U64Set2, HashSet;
    q_c01_route_uuid_set = UuidSet, UuidSet2, HashSet;
}

#[cfg(verif_replay)]
include!("/verif/.cache/replay/verif__value_routing.rs");
