//! C07 (thorough only): large id kinds, longer strings.
use super::leaf_common::*;
use super::*;

leaf_total!(t_c07_leaf_object_id, 38, ValueKind::ObjectId, 33, [1, 16, 17, 32, 33, 34]);
leaf_total!(t_c07_leaf_service_id, 70, ValueKind::ServiceId, 65, [1, 17, 33, 49, 64, 65, 66]);

#[kani::proof]
#[kani::unwind(8)]
fn t_c07_leaf_string3() {
    let c: [u8; 3] = kani::any();
    check_string(&[ValueKind::String as u8, 3, c[0], c[1], c[2]], 2, 3);
    // non-canonical two-byte length form
    check_string(&[ValueKind::String as u8, 252, 2, c[0], c[1]], 3, 2);
    check_string(&[ValueKind::String as u8, 252, 3, c[0], c[1]], 3, 3);
}

#[cfg(verif_replay)]
include!("/verif/.cache/replay/verif__leaf_total_t.rs");
