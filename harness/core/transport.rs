//! C14 (transport part 1): `transport::Buffered<T>` on top of an arbitrary inner transport. The inner
//! transport is the environment: every `send_poll_ready` / `send_poll_flush` answers Pending, Ready
//! or an error nondeterministically (fresh choice per call), `send_start` may fail. The real
//! `Buffered` poll functions are driven directly with a no-op waker (no executor involved): the
//! *schedule of Pending results* is a symbolic input, bounded by the number of polls.
use super::*;
use crate::message::{Message, Sync as SyncMsg, SyncReply};
use crate::transport::{AsyncTransport, Buffered};
use std::pin::Pin;
use std::task::{Context, Poll, Waker};

const CAP: usize = 4;

/// What the inner transport has seen so far.
static mut STARTED: [u32; CAP] = [0; CAP];
static mut N_STARTED: usize = 0;
/// the inner flush completed after the last `send_start` (nothing handed over is still in flight)
static mut FLUSHED: bool = true;
/// `send_start` without a preceding successful `send_poll_ready` (contract of the trait)
static mut READY_TOKEN: bool = false;
static mut CONTRACT_BROKEN: bool = false;
static mut CALLS: u8 = 0;
/// Answers of the inner transport's poll functions, by call number: 0 Pending, 1 error, 2 Ready(Ok),
/// 0xff (default) a fresh nondeterministic choice. A harness fixes a prefix of the schedule when the
/// *structure* of the queue has to stay concrete (DESIGN 8.1) and leaves the rest symbolic.
static mut SCRIPT: [u8; 8] = [0xff; 8];

fn choice() -> u8 {
    unsafe {
        let i = (CALLS as usize).saturating_sub(1);
        let forced = match i {
            0 => SCRIPT[0],
            1 => SCRIPT[1],
            2 => SCRIPT[2],
            3 => SCRIPT[3],
            4 => SCRIPT[4],
            5 => SCRIPT[5],
            6 => SCRIPT[6],
            _ => 0xff,
        };
        if forced != 0xff {
            return forced;
        }
        let c: u8 = kani::any();
        c % 3
    }
}

struct Mock;

fn serial_of(m: &Message) -> u32 {
    match m {
        Message::Sync(s) => s.serial,
        Message::SyncReply(s) => s.serial ^ 0x8000_0000,
        _ => 0xffff_ffff,
    }
}

impl AsyncTransport for Mock {
    type Error = u8;

    fn receive_poll(self: Pin<&mut Self>, _cx: &mut Context) -> Poll<Result<Message, u8>> {
        let c: u8 = kani::any();
        match c % 3 {
            0 => Poll::Pending,
            1 => Poll::Ready(Err(1)),
            _ => Poll::Ready(Ok(Message::Sync(SyncMsg { serial: kani::any() }))),
        }
    }

    fn send_poll_ready(self: Pin<&mut Self>, _cx: &mut Context) -> Poll<Result<(), u8>> {
        unsafe {
            CALLS += 1;
            match choice() {
                0 => Poll::Pending,
                1 => Poll::Ready(Err(2)),
                _ => {
                    READY_TOKEN = true;
                    Poll::Ready(Ok(()))
                }
            }
        }
    }

    fn send_start(self: Pin<&mut Self>, msg: Message) -> Result<(), u8> {
        unsafe {
            CALLS += 1;
            if !READY_TOKEN {
                CONTRACT_BROKEN = true;
            }
            READY_TOKEN = false;
            if choice() == 1 {
                std::mem::forget(msg);
                return Err(3);
            }
            assert!(N_STARTED < CAP, "more messages handed to the inner transport than were sent");
            let s = serial_of(&msg);
            match N_STARTED {
                0 => STARTED[0] = s,
                1 => STARTED[1] = s,
                2 => STARTED[2] = s,
                _ => STARTED[3] = s,
            }
            N_STARTED += 1;
            FLUSHED = false;
            std::mem::forget(msg);
            Ok(())
        }
    }

    fn send_poll_flush(self: Pin<&mut Self>, _cx: &mut Context) -> Poll<Result<(), u8>> {
        unsafe {
            CALLS += 1;
            match choice() {
                0 => Poll::Pending,
                1 => Poll::Ready(Err(4)),
                _ => {
                    FLUSHED = true;
                    Poll::Ready(Ok(()))
                }
            }
        }
    }
}

fn started(i: usize) -> u32 {
    unsafe {
        match i {
            0 => STARTED[0],
            1 => STARTED[1],
            2 => STARTED[2],
            _ => STARTED[3],
        }
    }
}

fn queue(t: &mut Pin<&mut Buffered<Mock>>, cx: &mut Context, sent: &mut [u32; CAP], n_sent: &mut usize) {
    let s: u32 = kani::any();
    assert!(matches!(t.as_mut().send_poll_ready(cx), Poll::Ready(Ok(()))), "the buffered transport is always ready");
    let msg = Message::Sync(SyncMsg { serial: s });
    match *n_sent {
        0 => sent[0] = s,
        1 => sent[1] = s,
        2 => sent[2] = s,
        _ => sent[3] = s,
    }
    assert!(t.as_mut().send_start(msg).is_ok());
    *n_sent += 1;
}

/// One poll of the flush. Whenever it returns Ready(Ok): every queued message has been handed to
/// the inner transport, once, in order, and the inner transport's own flush has completed after
/// the last hand-over. Otherwise nothing is lost or reordered: what the inner transport has seen
/// is a prefix of what was sent. Returns false when the transport failed (unusable afterwards).
fn poll_flush(t: &mut Pin<&mut Buffered<Mock>>, cx: &mut Context, sent: &[u32; CAP], n_sent: usize) -> Option<bool> {
    let r = t.as_mut().send_poll_flush(cx);
    let ns = unsafe { N_STARTED };
    assert!(ns <= n_sent, "no message is duplicated or invented");
    assert!(ns < 1 || started(0) == sent[0], "messages reach the inner transport in send order, unchanged");
    assert!(ns < 2 || started(1) == sent[1]);
    assert!(ns < 3 || started(2) == sent[2]);
    assert!(ns < 4 || started(3) == sent[3]);
    assert!(!unsafe { CONTRACT_BROKEN }, "every send_start on the inner transport follows a successful send_poll_ready");
    match r {
        Poll::Ready(Ok(())) => {
            assert!(ns == n_sent, "a flush returns only after all earlier messages were handed over");
            assert!(unsafe { FLUSHED }, "and after the inner transport has flushed them");
            Some(true)
        }
        Poll::Ready(Err(_)) => None,
        Poll::Pending => Some(false),
    }
}

/// `n` messages are queued, then the flush is polled up to `polls` times (the inner transport
/// answers Pending / Ready / error nondeterministically on every call).
fn flush_lemma(n: usize, polls: usize) {
    // never dropped: the drop glue of a `VecDeque<Message>` (63 variants per slot) is not the subject
    let mut t = std::mem::ManuallyDrop::new(Buffered::new(Mock));
    let mut t = Pin::new(&mut *t);
    let mut cx = Context::from_waker(Waker::noop());
    let mut sent = [0u32; CAP];
    let mut n_sent = 0;
    let mut i = 0;
    while i < n {
        queue(&mut t, &mut cx, &mut sent, &mut n_sent);
        i += 1;
    }
    assert!(unsafe { N_STARTED } == 0, "queueing alone does not touch the inner transport");
    let mut p = 0;
    while p < polls {
        match poll_flush(&mut t, &mut cx, &sent, n_sent) {
            Some(true) => {
                kani::cover!(p > 0, "flush completes on a later poll");
                return;
            }
            Some(false) => {}
            None => return,
        }
        p += 1;
    }
}

/// A message sent while an earlier flush is still pending is covered by the next flush. The first
/// flush poll is scripted (the queue structure stays concrete), everything after it is symbolic:
/// `first` = answers of the inner transport during the first poll.
fn late_send_lemma(first: &[u8]) {
    let mut k = 0;
    while k < first.len() {
        unsafe { SCRIPT[k] = first[k] };
        k += 1;
    }
    let mut t = std::mem::ManuallyDrop::new(Buffered::new(Mock));
    let mut t = Pin::new(&mut *t);
    let mut cx = Context::from_waker(Waker::noop());
    let mut sent = [0u32; CAP];
    let mut n_sent = 0;
    queue(&mut t, &mut cx, &mut sent, &mut n_sent);
    let r1 = poll_flush(&mut t, &mut cx, &sent, n_sent);
    assert!(r1 == Some(false), "scripted: the first flush stays pending");
    queue(&mut t, &mut cx, &mut sent, &mut n_sent);
    let r2 = poll_flush(&mut t, &mut cx, &sent, n_sent);
    if r2 == Some(false) {
        let r3 = poll_flush(&mut t, &mut cx, &sent, n_sent);
        kani::cover!(r3 == Some(true), "both messages flushed by the third poll");
    }
    kani::cover!(r2 == Some(true), "both messages flushed by the second poll");
}

#[cfg(not(verif_quick))]
#[kani::proof]
#[kani::unwind(6)]
fn q_c14_buffered_flush_2_msgs_3_polls() {
    flush_lemma(2, 3);
}

#[kani::proof]
#[kani::unwind(6)]
fn q_c14_buffered_late_send_while_not_ready() {
    // first poll: the inner transport is not ready, the message stays queued
    late_send_lemma(&[0]);
}

#[kani::proof]
#[kani::unwind(6)]
fn q_c14_buffered_late_send_while_inner_flush_pending() {
    // first poll: ready, message handed over, the inner flush is pending
    late_send_lemma(&[2, 2, 0]);
}

#[kani::proof]
#[kani::unwind(6)]
fn q_c14_buffered_flush_1_msg_2_polls() {
    flush_lemma(1, 2);
}

#[kani::proof]
#[kani::unwind(6)]
fn q_c14_buffered_flush_empty_queue() {
    // nothing queued: the flush is still the inner transport's flush
    flush_lemma(0, 2);
}

#[cfg(not(verif_quick))]
#[kani::proof]
#[kani::unwind(6)]
fn t_c14_buffered_flush_3_msgs_4_polls() {
    flush_lemma(3, 4);
}

/// Receiving is passed through untouched.
#[kani::proof]
#[kani::unwind(6)]
fn q_c14_buffered_receive_passthrough() {
    // never dropped: the drop glue of a `VecDeque<Message>` (63 variants per slot) is not the subject
    let mut t = std::mem::ManuallyDrop::new(Buffered::new(Mock));
    let mut t = Pin::new(&mut *t);
    let mut cx = Context::from_waker(Waker::noop());
    match t.as_mut().receive_poll(&mut cx) {
        Poll::Ready(Ok(m)) => {
            assert!(matches!(m, Message::Sync(_)));
            std::mem::forget(m);
        }
        Poll::Ready(Err(e)) => assert!(e == 1),
        Poll::Pending => {}
    }
    assert!(unsafe { CALLS } == 0);
}

/// Native replay. Kani's concrete-playback generator produces no unit test for these harnesses
/// ("did not generate unit tests" - the nondeterministic choices are made inside the trait methods of
/// the mock), so a counterexample is reproduced by *searching* the schedules natively: every
/// sequence of up to 7 answers of the inner transport is fed to the harness through Kani's own
/// playback runtime (`kani::concrete_playback_run`) in an ordinary rustc build against the real
/// `Buffered`; the test fails iff some schedule violates an assertion of the harness. This is only
/// the replay step - the verdict that a violation exists is CBMC's.
#[cfg(verif_replay)]
mod native_search {
    use super::*;

    fn reset() {
        unsafe {
            STARTED = [0; CAP];
            N_STARTED = 0;
            FLUSHED = true;
            READY_TOKEN = false;
            CONTRACT_BROKEN = false;
            CALLS = 0;
            SCRIPT = [0xff; 8];
        }
    }

    fn search(name: &str, n_u32: usize, harness: fn()) {
        let mut found: Option<(Vec<Vec<u8>>, String)> = None;
        let prev = std::panic::take_hook();
        std::panic::set_hook(Box::new(|_| {}));
        'outer: for len in 0..=7usize {
            for code in 0..3usize.pow(len as u32) {
                let mut vals: Vec<Vec<u8>> = (0..n_u32).map(|i| vec![7 + i as u8, 0, 0, 0]).collect();
                let mut c = code;
                for _ in 0..len {
                    vals.push(vec![(c % 3) as u8]);
                    c /= 3;
                }
                reset();
                let v2 = vals.clone();
                let r = std::panic::catch_unwind(move || kani::concrete_playback_run(v2, harness));
                if let Err(e) = r {
                    let msg = e.downcast_ref::<String>().cloned().or_else(|| e.downcast_ref::<&str>().map(|s| s.to_string())).unwrap_or_default();
                    // not enough / too many recorded values: this schedule does not fit the path
                    if !msg.contains("det vals") && !msg.contains("concrete values left over") {
                        found = Some((vals, msg));
                        break 'outer;
                    }
                }
            }
        }
        std::panic::set_hook(prev);
        if let Some((vals, msg)) = found {
            panic!("native replay of {name}: the schedule {vals:?} (serials, then answers 0 Pending / 1 error / 2 Ready) violates: {msg}");
        }
    }

    #[test]
    fn native_search__q_c14_buffered_flush_1_msg_2_polls() {
        search("q_c14_buffered_flush_1_msg_2_polls", 1, super::q_c14_buffered_flush_1_msg_2_polls);
    }
    #[test]
    fn native_search__q_c14_buffered_late_send_while_not_ready() {
        search("q_c14_buffered_late_send_while_not_ready", 2, super::q_c14_buffered_late_send_while_not_ready);
    }
    #[test]
    fn native_search__q_c14_buffered_late_send_while_inner_flush_pending() {
        search("q_c14_buffered_late_send_while_inner_flush_pending", 2, super::q_c14_buffered_late_send_while_inner_flush_pending);
    }
    #[test]
    fn native_search__q_c14_buffered_flush_empty_queue() {
        search("q_c14_buffered_flush_empty_queue", 0, super::q_c14_buffered_flush_empty_queue);
    }
    #[cfg(not(verif_quick))]
    #[test]
    fn native_search__q_c14_buffered_flush_2_msgs_3_polls() {
        search("q_c14_buffered_flush_2_msgs_3_polls", 2, super::q_c14_buffered_flush_2_msgs_3_polls);
    }
    #[cfg(not(verif_quick))]
    #[test]
    fn native_search__t_c14_buffered_flush_3_msgs_4_polls() {
        search("t_c14_buffered_flush_3_msgs_4_polls", 3, super::t_c14_buffered_flush_3_msgs_4_polls);
    }
}

#[cfg(verif_replay)]
include!("/verif/.cache/replay/verif__transport.rs");
