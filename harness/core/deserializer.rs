//! C01-d / C07 (unit `depth`): the nesting counter, for EVERY parent depth (symbolic). Child module
//! of core/src/deserializer.rs (private `depth` fields and `new_without_value_kind` constructors).
//!
//! The shape harnesses start the walkers from concrete boundary depths only (a symbolic depth in
//! front of a walk defeats CBMC's constant propagation, DESIGN.md 8.1). Here nothing is walked:
//! each nesting step is executed once with a symbolic parent depth and a *probe child* that only
//! records the depth it is created with. Lemma per step: the child is created with depth
//! `parent + 1`, or the step fails with `TooDeeplyNested` iff `parent + 1 > 32`.
#![allow(dead_code, unused_imports, missing_debug_implementations, unreachable_pub, unnameable_types, static_mut_refs)]
#![cfg(any(verif_unit = "all", verif_unit = "depth"))]

use super::*;

static mut SEEN: u8 = 0xff;

struct DepthProbe;

impl Deserialize<tags::Unit> for DepthProbe {
    fn deserialize(d: Deserializer) -> Result<Self, DeserializeError> {
        unsafe { SEEN = d.depth };
        Ok(DepthProbe)
    }
}

fn seen() -> u8 {
    unsafe { SEEN }
}

/// depth held by a live deserializer unit: 1..=32
fn any_parent_depth() -> u8 {
    let d: u8 = kani::any();
    kani::assume(d >= 1 && d <= 32);
    d
}

fn expect_child<T>(r: Result<T, DeserializeError>, parent: u8) {
    match r {
        Ok(_) => assert!(parent < 32 && seen() == parent + 1, "child is created exactly one level deeper"),
        Err(e) => assert!(parent == 32 && e == DeserializeError::TooDeeplyNested, "only nesting beyond 32 fails, with the nesting error"),
    }
}

pub(crate) fn unknown_fields_new() -> crate::UnknownFields {
    let rs = unsafe { std::mem::transmute::<(u64, u64), std::collections::hash_map::RandomState>((0, 0)) };
    crate::UnknownFields(std::collections::HashMap::with_hasher(rs))
}

#[kani::proof]
#[kani::unwind(4)]
fn q_c01_c07_depth_constructor() {
    let d: u8 = kani::any();
    kani::assume(d <= 32);
    let arr = [0u8];
    let mut rd: &[u8] = &arr;
    match Deserializer::new(&mut rd, d) {
        Ok(de) => assert!(d <= 31 && de.depth == d + 1),
        Err(e) => assert!(d == 32 && e == DeserializeError::TooDeeplyNested),
    }
}

#[kani::proof]
#[kani::unwind(4)]
fn q_c01_c07_depth_some_and_option() {
    let d = any_parent_depth();
    let arr = [ValueKind::Some as u8];
    let mut rd: &[u8] = &arr;
    let de = Deserializer { buf: &mut rd, depth: d };
    expect_child(de.deserialize_some::<tags::Unit, DepthProbe>(), d);
    let mut rd: &[u8] = &arr;
    let de = Deserializer { buf: &mut rd, depth: d };
    expect_child(de.deserialize_option::<tags::Unit, DepthProbe>(), d);
}

#[kani::proof]
#[kani::unwind(4)]
fn q_c01_c07_depth_vec() {
    let d = any_parent_depth();
    let a1 = [1u8];
    let mut rd: &[u8] = &a1;
    match Vec1Deserializer::new_without_value_kind(&mut rd, d) {
        Ok(mut v) => expect_child(v.deserialize::<tags::Unit, DepthProbe>(), d),
        Err(_) => panic!("header"),
    }
    let a2 = [ValueKind::Some as u8];
    let mut rd: &[u8] = &a2;
    match Vec2Deserializer::new_without_value_kind(&mut rd, d) {
        Ok(mut v) => expect_child(v.deserialize::<tags::Unit, DepthProbe>(), d),
        Err(_) => panic!("header"),
    }
}

#[kani::proof]
#[kani::unwind(4)]
fn q_c01_c07_depth_map() {
    let d = any_parent_depth();
    let k: u8 = kani::any();
    let a1 = [1u8, k];
    let mut rd: &[u8] = &a1;
    match Map1Deserializer::<tags::U8>::new_without_value_kind(&mut rd, d) {
        Ok(mut m) => expect_child(m.deserialize_element::<u8, tags::Unit, DepthProbe>(), d),
        Err(_) => panic!("header"),
    }
    let a2 = [ValueKind::Some as u8, k];
    let mut rd: &[u8] = &a2;
    match Map2Deserializer::<tags::U8>::new_without_value_kind(&mut rd, d) {
        Ok(mut m) => expect_child(m.deserialize_element::<u8, tags::Unit, DepthProbe>(), d),
        Err(_) => panic!("header"),
    }
}

#[kani::proof]
#[kani::unwind(4)]
#[kani::stub(crate::UnknownFields::new, unknown_fields_new)]
fn q_c01_c07_depth_struct() {
    let d = any_parent_depth();
    let a1 = [1u8, 3];
    let mut rd: &[u8] = &a1;
    match Struct1Deserializer::new_without_value_kind(&mut rd, d) {
        Ok(mut s) => match s.deserialize() {
            Ok(Some(f)) => expect_child(f.deserialize::<tags::Unit, DepthProbe>(), d),
            _ => panic!("field"),
        },
        Err(_) => panic!("header"),
    }
    let a2 = [ValueKind::Some as u8, 3];
    let mut rd: &[u8] = &a2;
    match Struct2Deserializer::new_without_value_kind(&mut rd, d) {
        Ok(mut s) => match s.deserialize() {
            Ok(Some(f)) => expect_child(f.deserialize::<tags::Unit, DepthProbe>(), d),
            _ => panic!("field"),
        },
        Err(_) => panic!("header"),
    }
}

#[kani::proof]
#[kani::unwind(4)]
fn q_c01_c07_depth_enum() {
    let d = any_parent_depth();
    let a = [7u8];
    let mut rd: &[u8] = &a;
    match EnumDeserializer::new_without_value_kind(&mut rd, d) {
        Ok(e) => expect_child(e.deserialize::<tags::Unit, DepthProbe>(), d),
        Err(_) => panic!("header"),
    }
}

#[cfg(verif_replay)]
include!("/verif/.cache/replay/deserializer__verif.rs");
