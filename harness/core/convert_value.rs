//! C13 (and C12-b/e): value epoch conversion. Child module of core/src/convert_value.rs, so the
//! private `Convert` walker and `Epoch` are reachable; `cfg(kani)` only.
#![allow(dead_code, unused_imports, missing_debug_implementations, unreachable_pub, unnameable_types)]
#![cfg(any(
    verif_unit = "all",
    verif_unit = "convert_epoch",
    verif_unit = "convert_leaf",
    verif_unit = "convert_shapes",
    verif_unit = "convert_keys",
    verif_unit = "convert_keys_t",
    verif_unit = "depth",
))]

use super::{convert, Convert, Epoch};
use crate::verif::shape_common::*;
use crate::{
    DeserializeError, ProtocolVersion, SerializeError, SerializedValue, SerializedValueSlice,
    ValueConversionError, ValueKind,
};
use bytes::BytesMut;
use std::borrow::Cow;

const V14: ProtocolVersion = ProtocolVersion::V1_14;
const V19: ProtocolVersion = ProtocolVersion::V1_19;
const V20: ProtocolVersion = ProtocolVersion::V1_20;

/// The private walker from start depth `d` (what a parent at depth `d` does in `convert_next`).
fn run_convert(src: &[u8], d: u8) -> (Result<(), ValueConversionError>, usize, BytesMut) {
    let mut rd = src;
    let mut dst = BytesMut::new();
    let r = match Convert::new(&mut rd, &mut dst, Epoch::V1, d) {
        Ok(c) => c.convert(),
        Err(e) => Err(e),
    };
    (r, src.len() - rd.len(), dst)
}

/// `v2` is a complete well-formed encoding (either epoch or mixed) nested `levels` deep and `v1`
/// is its legacy-epoch reference encoding, built by the harness from the same payload.
pub(crate) fn check_convert(v2: &[u8], v1: &[u8], levels: u8) {
    // public entry point, top level
    let slice = SerializedValueSlice::new(v2);
    match convert(slice, None, V14) {
        Ok(Cow::Owned(o)) => assert!(same_bytes(&o, v1), "converted bytes differ from the legacy encoding of the same value"),
        Ok(Cow::Borrowed(_)) => panic!("down-conversion must re-encode"),
        Err(_) => panic!("conversion of a well-formed value failed"),
    }
    // converting the legacy encoding again changes nothing (idempotence)
    match convert(SerializedValueSlice::new(v1), None, V14) {
        Ok(Cow::Owned(o)) => assert!(same_bytes(&o, v1), "convert(convert(x)) == convert(x)"),
        _ => panic!("conversion of the legacy encoding failed"),
    }
    // same or newer epoch: the input is returned unchanged, without being walked
    match convert(slice, None, V20) {
        Ok(Cow::Borrowed(b)) => assert!(b.as_ptr() == v2.as_ptr() && b.len() == v2.len(), "same epoch: unchanged"),
        _ => panic!("same-epoch conversion must borrow"),
    }
    match convert(slice, Some(V14), V19) {
        Ok(Cow::Borrowed(b)) => assert!(b.as_ptr() == v2.as_ptr() && b.len() == v2.len()),
        _ => panic!("same-epoch conversion must borrow"),
    }
    match convert(slice, Some(V14), V20) {
        Ok(Cow::Borrowed(b)) => assert!(b.as_ptr() == v2.as_ptr() && b.len() == v2.len(), "to a newer epoch: unchanged"),
        _ => panic!("up-conversion must borrow"),
    }
    // nesting limit through the private walker (what a parent at depth d does in convert_next)
    let (r, c, out) = run_convert(v2, 32 - levels);
    assert!(r.is_ok() && c == v2.len() && same_bytes(&out, v1), "a value nested exactly 32 deep converts");
    let (r, _, _) = run_convert(v2, 33 - levels);
    assert!(
        r == Err(ValueConversionError::Deserialize(DeserializeError::TooDeeplyNested)),
        "nesting beyond 32 is rejected with the nesting error"
    );
}

/// A truncated encoding is rejected by the converter as well, without panicking.
pub(crate) fn check_convert_prefix_rejected(enc: &[u8], l: usize) {
    let (r, _, _) = run_convert(&enc[..l], 0);
    assert!(r.is_err(), "conversion of a truncated value must fail");
}

// ---------------------------------------------------------------------------------------------
// epoch mapping and direction (C13, C12-b)
// ---------------------------------------------------------------------------------------------
#[cfg(any(verif_unit = "all", verif_unit = "convert_epoch"))]
mod epoch {
    use super::*;

    #[kani::proof]
    fn q_c12_c13_epoch_mapping() {
        let major: u32 = kani::any();
        let minor: u32 = kani::any();
        let e = Epoch::try_from(ProtocolVersion::new(major, minor));
        let v1 = major == 1 && minor >= 14 && minor <= 19;
        let v2 = major == 1 && minor == 20;
        match e {
            Ok(Epoch::V1) => assert!(v1),
            Ok(Epoch::V2) => assert!(v2),
            Err(err) => assert!(!v1 && !v2 && err == ValueConversionError::InvalidVersion),
        }
        assert!(Epoch::V1 < Epoch::V2);
    }

    /// `convert` on a literal two-byte value with arbitrary versions: InvalidVersion iff a version
    /// is outside 1.14..=1.20, borrowed/unchanged iff epoch(to) >= epoch(from), never a panic.
    #[kani::proof]
    #[kani::unwind(6)]
    fn q_c12_c13_convert_direction() {
        let x: u8 = kani::any();
        let enc = [ValueKind::U8 as u8, x];
        let fmaj: u32 = kani::any();
        let fmin: u32 = kani::any();
        let tmaj: u32 = kani::any();
        let tmin: u32 = kani::any();
        let have_from: bool = kani::any();
        let from = if have_from { Some(ProtocolVersion::new(fmaj, fmin)) } else { None };
        let to = ProtocolVersion::new(tmaj, tmin);
        let valid = |maj: u32, min: u32| maj == 1 && min >= 14 && min <= 20;
        let from_ok = !have_from || valid(fmaj, fmin);
        let to_ok = valid(tmaj, tmin);
        let from_v2 = !have_from || fmin == 20;
        let to_v2 = tmin == 20;
        let r = convert(SerializedValueSlice::new(&enc), from, to);
        match r {
            Err(e) => assert!(e == ValueConversionError::InvalidVersion && !(from_ok && to_ok)),
            Ok(Cow::Borrowed(b)) => {
                assert!(from_ok && to_ok && (to_v2 || !from_v2));
                assert!(b.as_ptr() == enc.as_ptr() && b.len() == 2);
            }
            Ok(Cow::Owned(o)) => {
                assert!(from_ok && to_ok && from_v2 && !to_v2);
                assert!(same_bytes(&o, &enc));
            }
        }
    }

    #[cfg(verif_replay)]
    include!("/verif/.cache/replay/convert_value__verif__epoch.rs");
}

// ---------------------------------------------------------------------------------------------
// leaf kinds: conversion copies the value (bool normalised), fails exactly on truncation
// ---------------------------------------------------------------------------------------------
#[cfg(any(verif_unit = "all", verif_unit = "convert_leaf"))]
mod leaf {
    use super::*;
    use crate::verif::leaf_common::ref_leaf_len;
    use crate::verif::run_skip;

    fn check_leaf_convert(kind: ValueKind, b: &[u8], d: u8) {
        let expect = ref_leaf_len(kind, b);
        let (r, c, out) = run_convert(b, d);
        let (rs, cs) = run_skip(b, d);
        assert!(r.is_ok() == rs.is_ok(), "conversion fails exactly when skip fails");
        assert!(r.is_ok() == (expect.is_some() && d <= 31));
        if r.is_ok() {
            let n = expect.unwrap();
            assert!(c == n && cs == n);
            assert!(out.len() >= 1 && out[0] == kind as u8, "kind preserved");
            // the output is a well-formed encoding of the same kind, and is a fixed point
            let mut tmp = [0u8; 80];
            let mut i = 0;
            while i < out.len() {
                tmp[i] = out[i];
                i += 1;
            }
            tmp[0] = kind as u8;
            let out_len = ref_leaf_len(kind, &tmp[..out.len()]);
            assert!(out_len == Some(out.len()));
            match kind {
                ValueKind::Bool => assert!(out.len() == 2 && out[1] == (b[1] != 0) as u8),
                ValueKind::U16 | ValueKind::I16 | ValueKind::U32 | ValueKind::I32 | ValueKind::U64 | ValueKind::I64 => {
                    // varints are re-encoded canonically: never longer than the input
                    assert!(out.len() <= n);
                }
                _ => assert!(same_bytes(&out, &b[..n]), "fixed-size kinds are copied verbatim"),
            }
        }
    }

    macro_rules! leaf_convert {
        ($name:ident, $unwind:expr, $kind:expr, $plen:expr, [$($l:expr),*]) => {
            #[kani::proof]
            #[kani::unwind($unwind)]
            fn $name() {
                let p: [u8; $plen] = kani::any();
                let mut arr = [0u8; $plen + 1];
                let mut i = 0;
                while i < $plen {
                    arr[i + 1] = p[i];
                    i += 1;
                }
                arr[0] = $kind as u8;
                        $(
                    check_leaf_convert($kind, &arr[..$l], 0);
                )*
                // the nesting limit on the complete value
                check_leaf_convert($kind, &arr[..], 31);
                check_leaf_convert($kind, &arr[..], 32);
            }
        };
    }

    leaf_convert!(q_c13_leaf_none, 6, ValueKind::None, 1, [1, 2]);
    leaf_convert!(q_c13_leaf_bool, 6, ValueKind::Bool, 2, [1, 2, 3]);
    leaf_convert!(q_c13_leaf_u8, 6, ValueKind::U8, 2, [1, 2]);
    #[cfg(not(verif_quick))]
    leaf_convert!(q_c13_leaf_i8, 6, ValueKind::I8, 2, [1, 2]);
    leaf_convert!(q_c13_leaf_u16, 8, ValueKind::U16, 4, [1, 2, 3, 4]);
    #[cfg(not(verif_quick))]
    leaf_convert!(q_c13_leaf_i16, 8, ValueKind::I16, 4, [1, 2, 3, 4]);
    leaf_convert!(q_c13_leaf_u32, 10, ValueKind::U32, 6, [1, 2, 5]);
    #[cfg(not(verif_quick))]
    leaf_convert!(q_c13_leaf_i32, 10, ValueKind::I32, 6, [1, 2, 5]);
    #[cfg(not(verif_quick))]
    leaf_convert!(q_c13_leaf_u64, 14, ValueKind::U64, 10, [1, 2, 9]);
    #[cfg(not(verif_quick))]
    leaf_convert!(q_c13_leaf_i64, 14, ValueKind::I64, 10, [1, 2, 9]);
    #[cfg(not(verif_quick))]
    leaf_convert!(q_c13_leaf_f32, 10, ValueKind::F32, 5, [1, 4, 5]);
    leaf_convert!(q_c13_leaf_f64, 14, ValueKind::F64, 9, [1, 8, 9]);
    leaf_convert!(q_c13_leaf_uuid, 22, ValueKind::Uuid, 17, [1, 16, 17]);
    leaf_convert!(q_c13_leaf_sender, 22, ValueKind::Sender, 17, [1, 16, 17]);
    #[cfg(not(verif_quick))]
    leaf_convert!(q_c13_leaf_receiver, 22, ValueKind::Receiver, 17, [1, 16, 17]);
    #[cfg(not(verif_quick))]
    leaf_convert!(q_c13_leaf_object_id, 38, ValueKind::ObjectId, 33, [1, 17, 32, 33]);
    #[cfg(not(verif_quick))]
    leaf_convert!(q_c13_leaf_service_id, 70, ValueKind::ServiceId, 65, [1, 64]);

    /// Strings: copied without UTF-8 validation, canonical length prefix.
    #[kani::proof]
    #[kani::unwind(8)]
    fn q_c13_leaf_string() {
        let c: [u8; 2] = kani::any();
        let enc = [ValueKind::String as u8, 2, c[0], c[1]];
        check_convert(&enc, &enc, 1);
        check_convert_prefix_rejected(&enc, 3);
        check_convert_prefix_rejected(&enc, 1);
        let nc = [ValueKind::String as u8, 252, 2, c[0], c[1]];
        check_convert(&nc, &enc, 1);
        // an invalid kind byte is an error, not a panic
        let bad = [66u8, c[0]]; // literal invalid kind (a symbolic one is explored through all arms)
        let (r, _, _) = run_convert(&bad, 0);
        assert!(r == Err(ValueConversionError::Deserialize(DeserializeError::InvalidSerialization)));
    }

    #[cfg(verif_replay)]
    include!("/verif/.cache/replay/convert_value__verif__leaf.rs");
}

// ---------------------------------------------------------------------------------------------
// container shapes without keys (one small harness per shape and aspect, see shapes_basic.rs)
// ---------------------------------------------------------------------------------------------
#[cfg(any(verif_unit = "all", verif_unit = "convert_shapes"))]
mod shapes {
    use super::*;

    const VEC1: u8 = ValueKind::Vec1 as u8;
    const VEC2: u8 = ValueKind::Vec2 as u8;
    const BYTES1: u8 = ValueKind::Bytes1 as u8;
    const BYTES2: u8 = ValueKind::Bytes2 as u8;
    const ENUM: u8 = ValueKind::Enum as u8;
    const STRUCT1: u8 = ValueKind::Struct1 as u8;
    const STRUCT2: u8 = ValueKind::Struct2 as u8;

    fn all_prefixes_rejected(enc: &[u8]) {
        let mut l = 0;
        while l < enc.len() {
            check_convert_prefix_rejected(enc, l);
            l += 1;
        }
    }

    /// `$v2` = input encoding (either epoch or mixed), `$v1` = its legacy reference encoding.
    macro_rules! cshape {
        ($m:ident, $unwind:expr, $levels:expr, |$x:ident, $y:ident, $z:ident| $v2:expr => $v1:expr) => {
            mod $m {
                use super::*;

                #[kani::proof]
                #[kani::unwind($unwind)]
                fn q_c13_c12_convert() {
                    let ($x, $y, $z): (u8, u8, u8) = (kani::any(), kani::any(), kani::any());
                    let v2 = $v2;
                    let v1 = $v1;
                    check_convert(&v2, &v1, $levels);
                }

                #[kani::proof]
                #[kani::unwind($unwind)]
                fn q_c13_truncations() {
                    let ($x, $y, $z): (u8, u8, u8) = (kani::any(), kani::any(), kani::any());
                    let v2 = $v2;
                    all_prefixes_rejected(&v2);
                }

                #[cfg(verif_replay)]
                include!(concat!("/verif/.cache/replay/convert_value__verif__shapes__", stringify!($m), ".rs"));
            }
        };
    }

    cshape!(some_u8, 12, 2, |x, y, z| [SOME, U8, x] => [SOME, U8, x]);
    #[cfg(not(verif_quick))]
    cshape!(enum_u8, 12, 2, |x, y, z| [ENUM, 9, U8, x] => [ENUM, 9, U8, x]);
    cshape!(enum_wide_id, 12, 2, |x, y, z| [ENUM, 255, y, z, 7, if z == 0 { 1 } else { z }, U8, x] => [ENUM, 255, y, z, 7, if z == 0 { 1 } else { z }, U8, x]);
    // a non-canonical id (wide form holding a small value) is re-encoded in the short form
    cshape!(enum_noncanonical_id, 12, 2, |x, y, z| [ENUM, 255, 9, 0, 0, 0, U8, x] => [ENUM, 9, U8, x]);
    #[cfg(not(verif_quick))]
    cshape!(enum_around_vec2, 12, 3, |x, y, z| [ENUM, 9, VEC2, SOME, U8, x, NONE] => [ENUM, 9, VEC1, 1, U8, x]);
    #[cfg(not(verif_quick))]
    cshape!(some_around_vec2, 12, 2, |x, y, z| [SOME, VEC2, NONE] => [SOME, VEC1, 0]);
    cshape!(vec2_two, 12, 2, |x, y, z| [VEC2, SOME, U8, x, SOME, U8, y, NONE] => [VEC1, 2, U8, x, U8, y]);
    cshape!(vec2_empty, 12, 1, |x, y, z| [VEC2, NONE] => [VEC1, 0]);
    #[cfg(not(verif_quick))]
    cshape!(vec1_two, 12, 2, |x, y, z| [VEC1, 2, U8, x, U8, y] => [VEC1, 2, U8, x, U8, y]);
    cshape!(vec2_nested, 12, 3, |x, y, z| [VEC2, SOME, VEC2, SOME, U8, x, NONE, NONE] => [VEC1, 1, VEC1, 1, U8, x]);
    #[cfg(not(verif_quick))]
    cshape!(vec2_in_vec1, 12, 3, |x, y, z| [VEC1, 1, VEC2, SOME, U8, x, NONE] => [VEC1, 1, VEC1, 1, U8, x]);
    cshape!(bytes2_segments, 12, 1, |x, y, z| [BYTES2, 2, x, y, 1, z, 0] => [BYTES1, 3, x, y, z]);
    #[cfg(not(verif_quick))]
    cshape!(bytes2_single, 12, 1, |x, y, z| [BYTES2, 3, x, y, z, 0] => [BYTES1, 3, x, y, z]);
    #[cfg(not(verif_quick))]
    cshape!(bytes2_empty, 12, 1, |x, y, z| [BYTES2, 0] => [BYTES1, 0]);
    #[cfg(not(verif_quick))]
    cshape!(bytes1, 12, 1, |x, y, z| [BYTES1, 3, x, y, z] => [BYTES1, 3, x, y, z]);
    cshape!(struct2_two, 14, 2, |x, y, z| [STRUCT2, SOME, 3, U8, x, SOME, 250, U8, y, NONE] => [STRUCT1, 2, 3, U8, x, 250, U8, y]);
    #[cfg(not(verif_quick))]
    cshape!(struct2_empty, 12, 1, |x, y, z| [STRUCT2, NONE] => [STRUCT1, 0]);
    #[cfg(not(verif_quick))]
    cshape!(struct1_two, 14, 2, |x, y, z| [STRUCT1, 2, 3, U8, x, 250, U8, y] => [STRUCT1, 2, 3, U8, x, 250, U8, y]);
    cshape!(struct2_with_vec2_field, 14, 3, |x, y, z| [STRUCT2, SOME, 3, VEC2, SOME, U8, x, NONE, NONE] => [STRUCT1, 1, 3, VEC1, 1, U8, x]);

    /// a marker that is neither Some nor None is an error, not a panic
    #[kani::proof]
    #[kani::unwind(12)]
    fn q_c13_bad_marker() {
        let (x, y): (u8, u8) = (kani::any(), kani::any());
        let vb = [VEC2, SOME, U8, x, U8, U8, y, NONE];
        let (rb, _, _) = run_convert(&vb, 0);
        assert!(rb == Err(ValueConversionError::Deserialize(DeserializeError::InvalidSerialization)));
    }

    #[cfg(verif_replay)]
    include!("/verif/.cache/replay/convert_value__verif__shapes.rs");
}

// ---------------------------------------------------------------------------------------------
// keyed containers, every key tag
// ---------------------------------------------------------------------------------------------
#[cfg(any(verif_unit = "all", verif_unit = "convert_keys", verif_unit = "convert_keys_t"))]
mod keys {
    use super::*;
    use crate::tags::{self, KeyTag, KeyTagImpl};

    /// `$kb` = encoded key as found in the input, `$kc` = its canonical re-encoding. One module
    /// per key form with one harness for maps and one for sets.
    macro_rules! keyed_convert {
        ($(#[$m:meta])* $name:ident, $unwind:expr, $ktag:ty, $klen:expr, $clen:expr, |$s:ident| $pre:expr, $kb:expr, $kc:expr) => {
            $(#[$m])*
            mod $name {
                use super::*;
                const K: usize = $klen;
                const C: usize = $clen;

                fn keys() -> ([u8; K], [u8; C]) {
                    let $s: [u8; 16] = kani::any();
                    kani::assume($pre);
                    ($kb, $kc)
                }

                fn put<const N: usize>(dst: &mut [u8], at: usize, k: &[u8; N]) {
                    let mut i = 0;
                    while i < N {
                        dst[at + i] = k[i];
                        i += 1;
                    }
                }

                /// Map2 [MAP2, SOME, key, U8, v, NONE] and Map1 [MAP1, 1, key, U8, v] -> [MAP1, 1, canon key, U8, v]
                #[kani::proof]
                #[kani::unwind($unwind)]
                fn q_c13_c12_maps() {
                    let (kb, kc) = keys();
                    let v: u8 = kani::any();
                    let map1 = <<$ktag as KeyTag>::Impl as KeyTagImpl>::VALUE_KIND_MAP1 as u8;
                    let map2 = <<$ktag as KeyTag>::Impl as KeyTagImpl>::VALUE_KIND_MAP2 as u8;
                    let mut m2 = [0u8; K + 5];
                    m2[0] = map2;
                    m2[1] = SOME;
                    put(&mut m2, 2, &kb);
                    m2[K + 2] = U8;
                    m2[K + 3] = v;
                    m2[K + 4] = NONE;
                    let mut m1 = [0u8; C + 4];
                    m1[0] = map1;
                    m1[1] = 1;
                    put(&mut m1, 2, &kc);
                    m1[C + 2] = U8;
                    m1[C + 3] = v;
                    check_convert(&m2, &m1, 2);
                    check_convert_prefix_rejected(&m2, K + 4);
                    check_convert_prefix_rejected(&m2, K + 2);
                    check_convert_prefix_rejected(&m2, 2);
                    // legacy input with the same (possibly non-canonical) key: canonicalised as well
                    let mut m1in = [0u8; K + 4];
                    m1in[0] = map1;
                    m1in[1] = 1;
                    put(&mut m1in, 2, &kb);
                    m1in[K + 2] = U8;
                    m1in[K + 3] = v;
                    let (r, c, out) = run_convert(&m1in, 0);
                    assert!(r.is_ok() && c == K + 4 && same_bytes(&out, &m1));
                    check_convert_prefix_rejected(&m1in, K + 3);
                }

                /// Set2 [SET2, SOME, key, NONE] and Set1 [SET1, 1, key] -> [SET1, 1, canon key]
                #[kani::proof]
                #[kani::unwind($unwind)]
                fn q_c13_c12_sets() {
                    let (kb, kc) = keys();
                    let set1 = <<$ktag as KeyTag>::Impl as KeyTagImpl>::VALUE_KIND_SET1 as u8;
                    let set2 = <<$ktag as KeyTag>::Impl as KeyTagImpl>::VALUE_KIND_SET2 as u8;
                    let mut s2 = [0u8; K + 3];
                    s2[0] = set2;
                    s2[1] = SOME;
                    put(&mut s2, 2, &kb);
                    s2[K + 2] = NONE;
                    let mut s1 = [0u8; C + 2];
                    s1[0] = set1;
                    s1[1] = 1;
                    put(&mut s1, 2, &kc);
                    check_convert(&s2, &s1, 1);
                    check_convert_prefix_rejected(&s2, K + 2);
                    check_convert_prefix_rejected(&s2, 2);
                    let mut s1in = [0u8; K + 2];
                    s1in[0] = set1;
                    s1in[1] = 1;
                    put(&mut s1in, 2, &kb);
                    let (r, c, out) = run_convert(&s1in, 0);
                    assert!(r.is_ok() && c == K + 2 && same_bytes(&out, &s1));
                    check_convert_prefix_rejected(&s1in, K + 1);
                }

                #[cfg(verif_replay)]
                include!(concat!("/verif/.cache/replay/convert_value__verif__keys__", stringify!($name), ".rs"));
            }
        };
    }

    keyed_convert!(q_c13_keys_u8, 12, tags::U8, 1, 1, |s| true, [s[0]], [s[0]]);
    #[cfg(not(verif_quick))]
    keyed_convert!(q_c13_keys_i8, 12, tags::I8, 1, 1, |s| true, [s[0]], [s[0]]);
    keyed_convert!(q_c13_keys_u16_long, 14, tags::U16, 3, 3, |s| s[1] != 0, [255, s[0], s[1]], [255, s[0], s[1]]);
    #[cfg(not(verif_quick))]
    keyed_convert!(q_c13_keys_i16_long, 14, tags::I16, 3, 3, |s| s[1] != 0, [255, s[0], s[1]], [255, s[0], s[1]]);
    // non-canonical input key: two-byte form holding a small value is re-encoded in one byte
    keyed_convert!(#[cfg(any(verif_unit = "all", verif_unit = "convert_keys_t"))] t_c13_keys_u16_noncanonical, 14, tags::U16, 2, 1, |s| s[0] <= 253, [254, s[0]], [s[0]]);
    #[cfg(not(verif_quick))]
    keyed_convert!(q_c13_keys_u32_long, 16, tags::U32, 5, 5, |s| s[3] != 0, [255, s[0], s[1], s[2], s[3]], [255, s[0], s[1], s[2], s[3]]);
    #[cfg(not(verif_quick))]
    keyed_convert!(q_c13_keys_i32_long, 16, tags::I32, 5, 5, |s| s[3] != 0, [255, s[0], s[1], s[2], s[3]], [255, s[0], s[1], s[2], s[3]]);
    #[cfg(not(verif_quick))]
    keyed_convert!(q_c13_keys_u64_long, 20, tags::U64, 9, 9, |s| s[7] != 0, [255, s[0], s[1], s[2], s[3], s[4], s[5], s[6], s[7]], [255, s[0], s[1], s[2], s[3], s[4], s[5], s[6], s[7]]);
    #[cfg(not(verif_quick))]
    keyed_convert!(q_c13_keys_i64_long, 20, tags::I64, 9, 9, |s| s[7] != 0, [255, s[0], s[1], s[2], s[3], s[4], s[5], s[6], s[7]], [255, s[0], s[1], s[2], s[3], s[4], s[5], s[6], s[7]]);
    #[cfg(not(verif_quick))]
    keyed_convert!(q_c13_keys_uuid, 30, tags::Uuid, 16, 16, |s| true, s, s);
    keyed_convert!(q_c13_keys_string, 14, tags::String, 3, 3, |s| true, [2, s[0], s[1]], [2, s[0], s[1]]);
    keyed_convert!(#[cfg(any(verif_unit = "all", verif_unit = "convert_keys_t"))] t_c13_keys_u32_short, 12, tags::U32, 1, 1, |s| true, [251], [251]);
    keyed_convert!(#[cfg(any(verif_unit = "all", verif_unit = "convert_keys_t"))] t_c13_keys_u64_short, 12, tags::U64, 1, 1, |s| true, [247], [247]);
    keyed_convert!(#[cfg(any(verif_unit = "all", verif_unit = "convert_keys_t"))] t_c13_keys_u32_mid, 14, tags::U32, 3, 3, |s| s[1] != 0, [253, s[0], s[1]], [253, s[0], s[1]]);
    keyed_convert!(#[cfg(any(verif_unit = "all", verif_unit = "convert_keys_t"))] t_c13_keys_u64_noncanonical, 16, tags::U64, 5, 1, |s| s[0] <= 247, [251, s[0], 0, 0, 0], [s[0]]);

    #[cfg(verif_replay)]
    include!("/verif/.cache/replay/convert_value__verif__keys.rs");
}

// ---------------------------------------------------------------------------------------------
// the converter's nesting counter for every parent depth (symbolic); see deserializer.rs
// ---------------------------------------------------------------------------------------------
#[cfg(any(verif_unit = "all", verif_unit = "depth"))]
mod depth {
    use super::*;

    #[kani::proof]
    #[kani::unwind(6)]
    fn q_c13_depth_constructor() {
        let d: u8 = kani::any();
        kani::assume(d <= 32);
        let arr = [0u8];
        let mut rd: &[u8] = &arr;
        let mut dst = BytesMut::new();
        match Convert::new(&mut rd, &mut dst, Epoch::V1, d) {
            Ok(c) => assert!(d <= 31 && c.depth == d + 1),
            Err(e) => assert!(d == 32 && e == ValueConversionError::Deserialize(DeserializeError::TooDeeplyNested)),
        }
    }

    /// every nesting step of the converter goes through `convert_next` or an inline
    /// `Convert::new(src, dst, epoch, self.depth)`: the child is one level deeper. With a leaf child
    /// (`None`, one byte) the step succeeds iff parent + 1 <= 32.
    // not registered: with a symbolic parent depth the kind dispatch behind convert_next is explored
    // arm by arm and does not finish in 10 min; the boundary depths are covered by the shape
    // harnesses (concrete 0 / 32-levels / 33-levels)
    #[cfg(verif_experimental)]
    #[kani::proof]
    #[kani::unwind(6)]
    fn q_c13_depth_convert_next() {
        let d: u8 = kani::any();
        kani::assume(d >= 1 && d <= 32);
        let arr = [ValueKind::None as u8];
        let mut rd: &[u8] = &arr;
        let mut dst = BytesMut::new();
        let mut c = Convert { src: &mut rd, dst: &mut dst, epoch: Epoch::V1, depth: d };
        let r = c.convert_next();
        match r {
            Ok(()) => assert!(d < 32),
            Err(e) => assert!(d == 32 && e == ValueConversionError::Deserialize(DeserializeError::TooDeeplyNested)),
        }
    }

    #[cfg(verif_replay)]
    include!("/verif/.cache/replay/convert_value__verif__depth.rs");
}
