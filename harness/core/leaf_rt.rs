//! C01-b: round trip of scalar `Value`s through the real serializer and `Value::deserialize`.
use super::leaf_common::*;
use super::*;

leaf_roundtrip!(q_c01_leaf_rt_bool, 6, 2, ValueKind::Bool, |v: bool| Value::Bool(v), Some(2));
leaf_roundtrip!(q_c01_leaf_rt_u8, 6, 2, ValueKind::U8, |v: u8| Value::U8(v), Some(2));
#[cfg(not(verif_quick))]
leaf_roundtrip!(q_c01_leaf_rt_i8, 6, 2, ValueKind::I8, |v: i8| Value::I8(v), Some(2));
leaf_roundtrip!(q_c01_leaf_rt_u16, 6, 4, ValueKind::U16, |v: u16| Value::U16(v), Some(1 + varint_len(v as u64, 2)));
#[cfg(not(verif_quick))]
leaf_roundtrip!(q_c01_leaf_rt_i16, 6, 4, ValueKind::I16, |v: i16| Value::I16(v), Some(1 + varint_len(zz64(v as i64) & 0xffff, 2)));
leaf_roundtrip!(q_c01_leaf_rt_u32, 8, 6, ValueKind::U32, |v: u32| Value::U32(v), Some(1 + varint_len(v as u64, 4)));
#[cfg(not(verif_quick))]
leaf_roundtrip!(q_c01_leaf_rt_i32, 8, 6, ValueKind::I32, |v: i32| Value::I32(v), Some(1 + varint_len(zz64(v as i64) & 0xffff_ffff, 4)));
#[cfg(not(verif_quick))]
leaf_roundtrip!(q_c01_leaf_rt_u64, 12, 10, ValueKind::U64, |v: u64| Value::U64(v), Some(1 + varint_len(v, 8)));
leaf_roundtrip!(q_c01_leaf_rt_i64, 12, 10, ValueKind::I64, |v: i64| Value::I64(v), Some(1 + varint_len(zz64(v), 8)));
#[cfg(not(verif_quick))]
leaf_roundtrip!(q_c01_leaf_rt_f32, 8, 5, ValueKind::F32, |v: u32| Value::F32(f32::from_bits(v)), Some(5));
leaf_roundtrip!(q_c01_leaf_rt_f64, 12, 9, ValueKind::F64, |v: u64| Value::F64(f64::from_bits(v)), Some(9));
leaf_roundtrip!(q_c01_leaf_rt_uuid, 20, 17, ValueKind::Uuid, |v: [u8; 16]| Value::Uuid(Uuid::from_bytes(v)), Some(17));
leaf_roundtrip!(q_c01_leaf_rt_sender, 20, 17, ValueKind::Sender, |v: [u8; 16]| Value::Sender(ChannelCookie(Uuid::from_bytes(v))), Some(17));
#[cfg(not(verif_quick))]
leaf_roundtrip!(q_c01_leaf_rt_receiver, 20, 17, ValueKind::Receiver, |v: [u8; 16]| Value::Receiver(ChannelCookie(Uuid::from_bytes(v))), Some(17));

#[kani::proof]
#[kani::unwind(6)]
fn q_c01_leaf_rt_none() {
    let ser = SerializedValue::serialize(&Value::None).unwrap();
    let bytes: &[u8] = &ser;
    assert!(bytes.len() == 1 && bytes[0] == 0);
    let arr = [ValueKind::None as u8];
    let (r, c) = run_value(&arr, 0);
    assert!(matches!(r, Ok(Value::None)) && c == 1);
}

/// Strings of 0..=3 bytes: ASCII bytes and one two-byte character (valid UTF-8 by construction;
/// the `&str` lives on the stack - growing a heap `String` with `push` goes through `realloc`,
/// which CBMC does not finish).
fn string_roundtrip(content: &[u8]) {
    let s = std::str::from_utf8(content).unwrap();
    let slen = content.len();
    let mut buf = bytes::BytesMut::new();
    Serializer::new(&mut buf, 0).unwrap().serialize_string(s).unwrap();
    let out: &[u8] = &buf;
    assert!(out.len() == 2 + slen && out[0] == ValueKind::String as u8 && out[1] == slen as u8);
    let mut arr = [ValueKind::String as u8, slen as u8, 0, 0, 0];
    let mut i = 0;
    while i < slen {
        assert!(out[2 + i] == content[i]);
        arr[2 + i] = content[i];
        i += 1;
    }
    let (r, c) = run_value(&arr[..2 + slen], 0);
    assert!(c == 2 + slen);
    match &r {
        Ok(Value::String(b)) => {
            assert!(b.len() == slen);
            let x = b.as_bytes();
            let mut j = 0;
            while j < slen {
                assert!(x[j] == content[j]);
                j += 1;
            }
        }
        _ => panic!("string did not round-trip"),
    }
    std::mem::forget(r);
}

#[cfg(not(verif_quick))]
#[kani::proof]
#[kani::unwind(8)]
fn q_c01_leaf_rt_string_ascii() {
    let a: [u8; 2] = kani::any();
    kani::assume(a[0] < 0x80 && a[1] < 0x80);
    string_roundtrip(&[a[0], a[1]]);
}

#[cfg(not(verif_quick))]
#[kani::proof]
#[kani::unwind(8)]
fn q_c01_leaf_rt_string_empty_and_multibyte() {
    string_roundtrip(&[]);
    // a two-byte character
    let hi: u8 = kani::any();
    let lo: u8 = kani::any();
    kani::assume(hi >= 0xc2 && hi <= 0xdf && lo >= 0x80 && lo <= 0xbf);
    string_roundtrip(&[hi, lo]);
}

/// `SerializedValueSlice::deserialize_as` rejects trailing data and accepts an exact encoding.
#[kani::proof]
#[kani::unwind(6)]
fn q_c01_trailing_data() {
    let x: u8 = kani::any();
    let y: u8 = kani::any();
    let exact = [ValueKind::U8 as u8, x];
    let trailing = [ValueKind::U8 as u8, x, y];
    let a = SerializedValueSlice::new(&exact[..]).deserialize_as::<tags::U8, u8>();
    assert!(a == Ok(x));
    let b = SerializedValueSlice::new(&trailing[..]).deserialize_as::<tags::U8, u8>();
    assert!(b == Err(DeserializeError::TrailingData));
    let c = SerializedValueSlice::new(&trailing[..]).kind();
    assert!(c == Ok(ValueKind::U8));
}

#[cfg(verif_replay)]
include!("/verif/.cache/replay/verif__leaf_rt.rs");
