//! C01 / C07 on container shapes without keys: Some, Enum, Vec1/2, Bytes1/2 with `u8` leaves and
//! one level of container nesting. The real `Value` serializer and `Value::deserialize`
//! (value.rs arms for Some / Vec / Bytes / Enum), the real skip walker, len, split_off, typed
//! decoding, and the nesting limit from every start depth.
use super::shape_common::*;
use super::*;
use crate::Enum;

const VEC1: u8 = ValueKind::Vec1 as u8;
const VEC2: u8 = ValueKind::Vec2 as u8;
const BYTES1: u8 = ValueKind::Bytes1 as u8;
const BYTES2: u8 = ValueKind::Bytes2 as u8;
const ENUM: u8 = ValueKind::Enum as u8;

fn ser_value(reference: &[u8], levels: u8, d: u8, v: &Value) {
    check_serialized(reference, levels, d, |s| s.serialize(v));
}

#[kani::proof]
#[kani::unwind(8)]
fn q_c01_c07_shape_some() {
    let x: u8 = kani::any();
    let d = any_depth();
    let enc = [SOME, U8, x];
    let val = Value::Some(Box::new(Value::U8(x)));
    check_wellformed(&enc, 2, d);
    check_value(&enc, 2, d, &val);
    ser_value(&enc, 2, d, &val);
    check_prefix_rejected(&enc, 0);
    check_prefix_rejected(&enc, 1);
    check_prefix_rejected(&enc, 2);
    // Some(Some(None)): three levels
    let enc3 = [SOME, SOME, NONE];
    let val3 = Value::Some(Box::new(Value::Some(Box::new(Value::None))));
    check_wellformed(&enc3, 3, d);
    check_value(&enc3, 3, d, &val3);
    ser_value(&enc3, 3, d, &val3);
    // Option<u8> typed
    let mut rd: &[u8] = &enc;
    let r = Deserializer::new(&mut rd, 0).unwrap().deserialize_option::<tags::U8, u8>();
    assert!(r == Ok(Some(x)) && rd.is_empty());
    kani::cover!(d == 30);
    kani::cover!(d == 31);
    std::mem::forget(val);
    std::mem::forget(val3);
}

#[kani::proof]
#[kani::unwind(8)]
fn q_c01_c07_shape_enum() {
    let x: u8 = kani::any();
    let id: u8 = kani::any();
    kani::assume(id <= 251);
    let d = any_depth();
    // short id form
    let enc = [ENUM, id, U8, x];
    let val = Value::Enum(Box::new(Enum::new(id as u32, Value::U8(x))));
    check_wellformed(&enc, 2, d);
    check_value(&enc, 2, d, &val);
    ser_value(&enc, 2, d, &val);
    check_prefix_rejected(&enc, 1);
    check_prefix_rejected(&enc, 2);
    check_prefix_rejected(&enc, 3);
    // full-width id form (canonical: most significant byte non-zero)
    let w: [u8; 4] = kani::any();
    kani::assume(w[3] != 0);
    let enc5 = [ENUM, 255, w[0], w[1], w[2], w[3], U8, x];
    let val5 = Value::Enum(Box::new(Enum::new(u32::from_le_bytes(w), Value::U8(x))));
    check_wellformed(&enc5, 2, d);
    check_value(&enc5, 2, d, &val5);
    ser_value(&enc5, 2, d, &val5);
    check_prefix_rejected(&enc5, 5);
    check_prefix_rejected(&enc5, 7);
    std::mem::forget(val);
    std::mem::forget(val5);
}

#[kani::proof]
#[kani::unwind(8)]
fn q_c01_c07_shape_vec2() {
    let x: u8 = kani::any();
    let y: u8 = kani::any();
    let d = any_depth();
    let enc = [VEC2, SOME, U8, x, SOME, U8, y, NONE];
    let val = Value::Vec(vec![Value::U8(x), Value::U8(y)]);
    check_wellformed(&enc, 2, d);
    check_value(&enc, 2, d, &val);
    ser_value(&enc, 2, d, &val);
    let mut l = 0;
    while l < 8 {
        check_prefix_rejected(&enc, l);
        l += 1;
    }
    // empty
    let e0 = [VEC2, NONE];
    let v0 = Value::Vec(Vec::new());
    check_wellformed(&e0, 1, d);
    check_value(&e0, 1, d, &v0);
    ser_value(&e0, 1, d, &v0);
    // typed
    let mut rd: &[u8] = &enc;
    let r: Result<Vec<u8>, _> = Deserializer::new(&mut rd, 0).unwrap().deserialize_vec_extend_new::<tags::U8, u8, Vec<u8>>();
    match r {
        Ok(v) => assert!(v.len() == 2 && v[0] == x && v[1] == y && rd.is_empty()),
        Err(_) => panic!("typed vec decode failed"),
    }
    // a marker that is neither Some nor None is rejected
    let bad: u8 = kani::any();
    kani::assume(bad != SOME && bad != NONE && bad <= 65);
    let encb = [VEC2, SOME, U8, x, bad, U8, y, NONE];
    let (rb, _) = run_skip(&encb, 0);
    assert!(rb == Err(DeserializeError::InvalidSerialization));
    std::mem::forget(val);
    std::mem::forget(v0);
}

#[kani::proof]
#[kani::unwind(8)]
fn q_c01_c07_shape_vec1() {
    let x: u8 = kani::any();
    let y: u8 = kani::any();
    let d = any_depth();
    let enc = [VEC1, 2, U8, x, U8, y];
    let val = Value::Vec(vec![Value::U8(x), Value::U8(y)]);
    check_wellformed(&enc, 2, d);
    check_value(&enc, 2, d, &val);
    // legacy encoding is produced by serialize_vec1_iter
    check_serialized(&enc, 2, d, |s| s.serialize_vec1_iter::<tags::U8, _>([x, y]));
    let mut l = 0;
    while l < 6 {
        check_prefix_rejected(&enc, l);
        l += 1;
    }
    let e0 = [VEC1, 0];
    let v0 = Value::Vec(Vec::new());
    check_wellformed(&e0, 1, d);
    check_value(&e0, 1, d, &v0);
    // a count that promises more than there is: rejected, no over-read
    let e_more = [VEC1, 3, U8, x, U8, y];
    let (rm, _) = run_skip(&e_more, 0);
    assert!(rm == Err(DeserializeError::UnexpectedEoi));
    let (rvm, _) = run_value(&e_more, 0);
    assert!(rvm.is_err());
    std::mem::forget(rvm);
    // serializer element count discipline
    let mut buf = bytes::BytesMut::new();
    let mut s1 = Serializer::new(&mut buf, 0).unwrap().serialize_vec1(1).unwrap();
    assert!(s1.serialize::<tags::U8>(x).is_ok());
    assert!(matches!(s1.serialize::<tags::U8>(y), Err(SerializeError::TooManyElements)));
    let mut buf2 = bytes::BytesMut::new();
    let s2 = Serializer::new(&mut buf2, 0).unwrap().serialize_vec1(1).unwrap();
    assert!(s2.finish() == Err(SerializeError::TooFewElements));
    std::mem::forget(val);
    std::mem::forget(v0);
}

#[kani::proof]
#[kani::unwind(8)]
fn q_c01_c07_shape_vec_nested() {
    let x: u8 = kani::any();
    let d = any_depth();
    let enc = [VEC2, SOME, VEC2, SOME, U8, x, NONE, NONE];
    let val = Value::Vec(vec![Value::Vec(vec![Value::U8(x)])]);
    check_wellformed(&enc, 3, d);
    check_value(&enc, 3, d, &val);
    ser_value(&enc, 3, d, &val);
    let e1 = [VEC1, 1, VEC1, 1, U8, x];
    check_wellformed(&e1, 3, d);
    check_value(&e1, 3, d, &val);
    // mixed epochs nest as well
    let em = [VEC1, 1, VEC2, SOME, SOME, U8, x, NONE];
    let valm = Value::Vec(vec![Value::Vec(vec![Value::Some(Box::new(Value::U8(x)))])]);
    check_wellformed(&em, 4, d);
    check_value(&em, 4, d, &valm);
    kani::cover!(d == 29);
    kani::cover!(d == 30);
    std::mem::forget(val);
    std::mem::forget(valm);
}

#[kani::proof]
#[kani::unwind(8)]
fn q_c01_c07_shape_bytes() {
    let x: u8 = kani::any();
    let y: u8 = kani::any();
    let z: u8 = kani::any();
    let d = any_depth();
    // V2: chunks [2: x y] [1: z] terminator 0
    let enc = [BYTES2, 2, x, y, 1, z, 0];
    let val = Value::Bytes(Bytes(vec![x, y, z]));
    check_wellformed(&enc, 1, d);
    check_value(&enc, 1, d, &val);
    let mut l = 0;
    while l < 7 {
        check_prefix_rejected(&enc, l);
        l += 1;
    }
    // what the serializer writes for a slice: one chunk
    let enc_s = [BYTES2, 3, x, y, z, 0];
    ser_value(&enc_s, 1, d, &val);
    check_value(&enc_s, 1, d, &val);
    let e0 = [BYTES2, 0];
    let v0 = Value::Bytes(Bytes(Vec::new()));
    check_wellformed(&e0, 1, d);
    check_value(&e0, 1, d, &v0);
    ser_value(&e0, 1, d, &v0);
    // V1
    let enc1 = [BYTES1, 3, x, y, z];
    check_wellformed(&enc1, 1, d);
    check_value(&enc1, 1, d, &val);
    check_serialized(&enc1, 1, d, |s| s.serialize_byte_slice1(&[x, y, z]));
    check_prefix_rejected(&enc1, 4);
    check_prefix_rejected(&enc1, 2);
    // V1 length beyond the buffer: rejected before copying
    let big: [u8; 4] = kani::any();
    let encb = [BYTES1, 255, big[0], big[1], big[2], big[3], x];
    let (rb, _) = run_value(&encb, 0);
    if u32::from_le_bytes(big) > 1 {
        assert!(rb.is_err());
    }
    std::mem::forget(rb);
    std::mem::forget(val);
    std::mem::forget(v0);
}
