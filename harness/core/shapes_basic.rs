//! C01 / C07 on container shapes without keys: Some, Enum, Vec1/2, Bytes1/2 with `u8` leaves and
//! one level of container nesting. Per shape one small harness per aspect (well-formedness and
//! nesting limit through skip/len/split_off; `Value::deserialize`; typed decode; serializer;
//! truncations): every heap-allocating call adds dynamic objects that make all later pointer
//! reads in the same CBMC run more expensive, so many small harnesses beat few large ones.
//!
//! Decoded `Value`s are compared with shallow hand-written matches, and nested values are
//! serialized through the typed API rather than through `&Value`: a discriminant that CBMC reads
//! from a heap object (`Box<Value>`, `Vec<Value>` element) is not a constant for it, so the 43-arm
//! `impl Serialize for &Value` (or a recursive comparison, or the drop glue of a `Vec<Value>`)
//! explodes on any boxed child (measured: > 200 s for `Some(Box(U8))`, against 1-3 s typed). The
//! `Some`/`Enum`/non-empty `Vec` arms of `impl Serialize for &Value` and the `Vec2` arm of
//! `Value::deserialize` are therefore outside this check.
use super::shape_common::*;
use super::*;

const VEC1: u8 = ValueKind::Vec1 as u8;
const VEC2: u8 = ValueKind::Vec2 as u8;
const BYTES1: u8 = ValueKind::Bytes1 as u8;
const BYTES2: u8 = ValueKind::Bytes2 as u8;
const ENUM: u8 = ValueKind::Enum as u8;

/// `Value::deserialize(enc)` at the deepest start that fits: Ok, everything consumed, `good(&v)`;
/// one deeper: the nesting error.
fn check_value_with(enc: &[u8], levels: u8, good: impl Fn(&Value) -> bool) {
    let (rv, cv) = run_value(enc, 32 - levels);
    match &rv {
        Ok(v) => {
            assert!(cv == enc.len(), "decode consumes exactly the encoding");
            assert!(good(v), "decoded value differs");
        }
        Err(_) => panic!("decode of a well-formed value failed"),
    }
    std::mem::forget(rv);
    let (rv, _) = run_value(enc, 33 - levels);
    assert!(matches!(rv, Err(DeserializeError::TooDeeplyNested)), "decode rejects nesting beyond 32 with the nesting error");
    std::mem::forget(rv);
}

fn is_u8(v: &Value, x: u8) -> bool {
    matches!(v, Value::U8(y) if *y == x)
}

fn all_prefixes_rejected(enc: &[u8]) {
    let mut l = 0;
    while l < enc.len() {
        check_prefix_rejected(enc, l);
        l += 1;
    }
}

/// One module per shape; `$enc` is the array expression over the symbolic bytes x, y, z.
macro_rules! shape {
    ($m:ident, $unwind:expr, $levels:expr, |$x:ident, $y:ident, $z:ident| $enc:expr
     $(, value: $good:expr)? $(, ser: [$($ser:expr),+])? $(, extra: $extra:block)?) => {
        mod $m {
            use super::*;

            #[kani::proof]
            #[kani::unwind($unwind)]
            fn q_c01_c07_wellformed() {
                let ($x, $y, $z): (u8, u8, u8) = (kani::any(), kani::any(), kani::any());
                let enc = $enc;
                check_wellformed(&enc, $levels);
            }

            #[kani::proof]
            #[kani::unwind($unwind)]
            fn q_c07_truncations() {
                let ($x, $y, $z): (u8, u8, u8) = (kani::any(), kani::any(), kani::any());
                let enc = $enc;
                all_prefixes_rejected(&enc);
            }

            $(
                #[kani::proof]
                #[kani::unwind($unwind)]
                fn q_c01_c07_value() {
                    let ($x, $y, $z): (u8, u8, u8) = (kani::any(), kani::any(), kani::any());
                    let enc = $enc;
                    check_value_with(&enc, $levels, $good);
                }
            )?

            $(
                #[kani::proof]
                #[kani::unwind($unwind)]
                fn q_c01_serialize() {
                    let ($x, $y, $z): (u8, u8, u8) = (kani::any(), kani::any(), kani::any());
                    let enc = $enc;
                    $( check_serialized(&enc, $levels, $ser); )+
                }
            )?

            $(
                #[kani::proof]
                #[kani::unwind($unwind)]
                fn q_c01_c07_extra() {
                    let ($x, $y, $z): (u8, u8, u8) = (kani::any(), kani::any(), kani::any());
                    $extra
                }
            )?

            #[cfg(verif_replay)]
            include!(concat!("/verif/.cache/replay/verif__shapes_basic__", stringify!($m), ".rs"));
        }
    };
}

shape!(some_u8, 10, 2, |x, y, z| [SOME, U8, x],
    value: |v: &Value| matches!(v, Value::Some(b) if is_u8(b, x)),
    ser: [|s: Serializer| s.serialize_some::<tags::U8>(x), |s: Serializer| s.serialize::<tags::Option<tags::U8>>(Some(x))],
    extra: {
        let enc = [SOME, U8, x];
        let mut rd: &[u8] = &enc;
        let r = Deserializer::new(&mut rd, 0).unwrap().deserialize_option::<tags::U8, u8>();
        assert!(r == Ok(Some(x)) && rd.is_empty());
        let encn = [NONE];
        check_wellformed(&encn, 1);
        check_serialized(&encn, 1, |s: Serializer| s.serialize::<tags::Option<tags::U8>>(None::<u8>));
    });

#[cfg(not(verif_quick))]
shape!(some_some_none, 10, 3, |x, y, z| [SOME, SOME, NONE],
    value: |v: &Value| matches!(v, Value::Some(a) if matches!(&**a, Value::Some(b) if matches!(&**b, Value::None))),
    ser: [|s: Serializer| s.serialize::<tags::Option<tags::Option<tags::Option<tags::U8>>>>(Some(Some(None::<u8>)))]);

// short id form: the id byte is a literal - a symbolic first varint byte makes the length of the
// varint, and with it every later position, symbolic for CBMC (an assumption does not prune the
// long-form branch during symbolic execution)
#[cfg(not(verif_quick))]
shape!(enum_short_id, 10, 2, |x, y, z| [ENUM, 7, U8, x],
    value: |v: &Value| matches!(v, Value::Enum(e) if e.id == 7 && is_u8(&e.value, x)),
    ser: [|s: Serializer| s.serialize_enum::<tags::U8>(7u32, x)],
    extra: {
        let encu = [ENUM, 251, NONE];
        check_wellformed(&encu, 2);
        check_serialized(&encu, 2, |s: Serializer| s.serialize_unit_enum(251u32));
    });

// full-width id form (canonical: most significant byte non-zero)
shape!(enum_wide_id, 12, 2, |x, y, z| [ENUM, 255, y, z, 7, if z == 0 { 1 } else { z }, U8, x],
    value: |v: &Value| matches!(v, Value::Enum(e) if e.id == u32::from_le_bytes([y, z, 7, if z == 0 { 1 } else { z }]) && is_u8(&e.value, x)),
    ser: [|s: Serializer| s.serialize_enum::<tags::U8>(u32::from_le_bytes([y, z, 7, if z == 0 { 1 } else { z }]), x)]);

shape!(vec2_two, 12, 2, |x, y, z| [VEC2, SOME, U8, x, SOME, U8, y, NONE],
    ser: [|s: Serializer| s.serialize_vec2_iter::<tags::U8, _>([x, y]), |s: Serializer| s.serialize::<tags::Vec<tags::U8>>([x, y])],
    extra: {
        let enc = [VEC2, SOME, U8, x, SOME, U8, y, NONE];
        // typed element-wise decode through the real Vec2Deserializer
        let mut rd: &[u8] = &enc;
        let mut v = match Deserializer::new(&mut rd, 0).unwrap().deserialize_vec2() {
            Ok(v) => v,
            Err(_) => panic!("vec2 header rejected"),
        };
        let a = v.deserialize::<tags::U8, u8>();
        let b = v.deserialize::<tags::U8, u8>();
        let c = v.deserialize::<tags::U8, u8>();
        assert!(a == Ok(Some(x)) && b == Ok(Some(y)) && c == Ok(None));
        assert!(v.finish(()).is_ok());
        assert!(rd.is_empty());
    });

shape!(vec2_empty, 10, 1, |x, y, z| [VEC2, NONE],
    value: |v: &Value| matches!(v, Value::Vec(e) if e.is_empty()),
    ser: [|s: Serializer| s.serialize_vec2_iter::<tags::U8, [u8; 0]>([])],
    extra: {
        // empty vec also through `&Value` (no element is read)
        let e0 = [VEC2, NONE];
        let v0 = Value::Vec(Vec::new());
        check_serialized(&e0, 1, |s: Serializer| s.serialize(&v0));
        std::mem::forget(v0);
    });

shape!(vec1_two, 12, 2, |x, y, z| [VEC1, 2, U8, x, U8, y],
    value: |v: &Value| matches!(v, Value::Vec(e) if e.len() == 2 && is_u8(&e[0], x) && is_u8(&e[1], y)),
    ser: [|s: Serializer| s.serialize_vec1_iter::<tags::U8, _>([x, y])],
    extra: {
        // a count that promises more than there is: rejected, no over-read
        let e_more = [VEC1, 3, U8, x, U8, y];
        let (rm, _) = run_skip(&e_more, 0);
        assert!(rm == Err(DeserializeError::UnexpectedEoi));
        // serializer element count discipline
        let mut buf = bytes::BytesMut::new();
        let mut s1 = Serializer::new(&mut buf, 0).unwrap().serialize_vec1(1).unwrap();
        assert!(s1.serialize::<tags::U8>(x).is_ok());
        assert!(matches!(s1.serialize::<tags::U8>(y), Err(SerializeError::TooManyElements)));
        let mut buf2 = bytes::BytesMut::new();
        let s2 = Serializer::new(&mut buf2, 0).unwrap().serialize_vec1(1).unwrap();
        assert!(s2.finish() == Err(SerializeError::TooFewElements));
    });

#[cfg(not(verif_quick))]
shape!(vec1_empty, 10, 1, |x, y, z| [VEC1, 0],
    value: |v: &Value| matches!(v, Value::Vec(e) if e.is_empty()));

// Vec2 inside Vec2: only the serializer side is checked - the deserializer walkers on this shape
// run out of memory (12 GB) although each level alone takes seconds (Vec2Deserializer inside its own loop)
mod vec2_nested {
    use super::*;

    #[kani::proof]
    #[kani::unwind(12)]
    fn q_c01_serialize() {
        let x: u8 = kani::any();
        let enc = [VEC2, SOME, VEC2, SOME, U8, x, NONE, NONE];
        check_serialized(&enc, 3, |s: Serializer| s.serialize::<tags::Vec<tags::Vec<tags::U8>>>([[x]]));
    }

    #[cfg(verif_replay)]
    include!("/verif/.cache/replay/verif__shapes_basic__vec2_nested.rs");
}

#[cfg(not(verif_quick))]
shape!(vec1_nested, 12, 3, |x, y, z| [VEC1, 1, VEC1, 1, U8, x],
    value: |v: &Value| matches!(v, Value::Vec(o) if o.len() == 1 && matches!(&o[0], Value::Vec(i) if i.len() == 1 && is_u8(&i[0], x))));

// mixed epochs nest as well
#[cfg(not(verif_quick))]
shape!(vec_mixed_nested, 12, 4, |x, y, z| [VEC1, 1, VEC2, SOME, SOME, U8, x, NONE]);

shape!(bytes2_chunks, 12, 1, |x, y, z| [BYTES2, 2, x, y, 1, z, 0],
    value: |v: &Value| matches!(v, Value::Bytes(b) if b.0.len() == 3 && b.0[0] == x && b.0[1] == y && b.0[2] == z),
    ser: [|s: Serializer| {
        let mut s = s.serialize_bytes2()?;
        s.serialize(&[x, y])?;
        s.serialize(&[])?;
        s.serialize(&[z])?;
        s.finish()
    }]);

#[cfg(not(verif_quick))]
shape!(bytes2_single, 12, 1, |x, y, z| [BYTES2, 3, x, y, z, 0],
    value: |v: &Value| matches!(v, Value::Bytes(b) if b.0.len() == 3 && b.0[0] == x && b.0[1] == y && b.0[2] == z),
    ser: [|s: Serializer| s.serialize_byte_slice2(&[x, y, z])],
    extra: {
        // `Value::Bytes` holds no nested values, so this arm of `impl Serialize for &Value` is executed
        let enc_s = [BYTES2, 3, x, y, z, 0];
        let val = Value::Bytes(Bytes(vec![x, y, z]));
        check_serialized(&enc_s, 1, |s: Serializer| s.serialize(&val));
        std::mem::forget(val);
        let e0 = [BYTES2, 0];
        check_wellformed(&e0, 1);
        check_serialized(&e0, 1, |s: Serializer| s.serialize_byte_slice2(&[]));
    });

shape!(bytes1, 12, 1, |x, y, z| [BYTES1, 3, x, y, z],
    value: |v: &Value| matches!(v, Value::Bytes(b) if b.0.len() == 3 && b.0[0] == x && b.0[1] == y && b.0[2] == z),
    ser: [|s: Serializer| s.serialize_byte_slice1(&[x, y, z])],
    extra: {
        // V1 length beyond the buffer: rejected before copying
        let encb = [BYTES1, 255, x, y, z, 1, 0];
        let (rb, _) = run_value(&encb, 0);
        assert!(rb.is_err());
        std::mem::forget(rb);
        let (rs, _) = run_skip(&encb, 0);
        assert!(rs.is_err());
    });
