//! C01 / C07 on keyed container shapes: Map1/Map2/Set1/Set2 for every key tag, one element with
//! a symbolic key (literal varint form marker) and a `u8` value; plus two-element variants for
//! `u8` keys. Real skip walker, typed decoding through the real `KeyTagImpl::deserialize_key`,
//! real serializer units, nesting limit from every start depth.
use super::shape_common::*;
use super::*;
use crate::tags::{KeyTag, KeyTagImpl};

/// One module per key encoding form with one harness per container kind. `$klen` = encoded key
/// length, `$kb` = encoded key bytes (array expression over the symbolic material `$s`; the first
/// byte of a varint is always a literal, see shapes_basic.rs), `$kv` = the key value they denote.
macro_rules! keyed_shapes {
    ($m:ident, $unwind:expr, $ktag:ty, $lty:ty, $klen:expr, |$s:ident| $pre:expr, $kb:expr, $kv:expr) => {
        mod $m {
            use super::*;
            const K: usize = $klen;

            fn key() -> ([u8; K], $lty, u8) {
                let $s: [u8; 16] = kani::any();
                kani::assume($pre);
                let kb: [u8; K] = $kb;
                let kv: $lty = $kv;
                (kb, kv, kani::any())
            }

            fn put_key(dst: &mut [u8], at: usize, kb: &[u8; K]) {
                let mut i = 0;
                while i < K {
                    dst[at + i] = kb[i];
                    i += 1;
                }
            }

            fn all_prefixes_rejected(enc: &[u8]) {
                let mut l = 0;
                while l < enc.len() {
                    check_prefix_rejected(enc, l);
                    l += 1;
                }
            }

            /// Map2: [MAP2, SOME, key.., U8, v, NONE] - serializer, and the real `Map2Deserializer`
            /// driven as a unit (element-wise typed decode, skip loop, finish). The keyed V2
            /// containers are not walked through the 66-arm dispatcher here: that path runs out of
            /// memory for most key types although the unit itself takes seconds.
            #[kani::proof]
            #[kani::unwind($unwind)]
            fn q_c01_c07_map2() {
                let (kb, kv, v) = key();
                let mut m2 = [0u8; K + 5];
                m2[0] = <<$ktag as KeyTag>::Impl as KeyTagImpl>::VALUE_KIND_MAP2 as u8;
                m2[1] = SOME;
                put_key(&mut m2, 2, &kb);
                m2[K + 2] = U8;
                m2[K + 3] = v;
                m2[K + 4] = NONE;
                check_serialized(&m2, 2, |s: Serializer| s.serialize_map2_iter::<$ktag, $lty, tags::U8, u8, _>([(kv.clone(), v)]));
                // typed, element-wise
                let mut rd: &[u8] = &m2;
                let mut d = match Deserializer::new(&mut rd, 0).unwrap().deserialize_map2::<$ktag>() {
                    Ok(d) => d,
                    Err(_) => panic!("map2 header rejected"),
                };
                match d.deserialize_element::<$lty, tags::U8, u8>() {
                    Ok(Some((k, x))) => {
                        assert!(k == kv && x == v, "map element decoded wrongly");
                        std::mem::forget(k);
                    }
                    _ => panic!("first element missing"),
                }
                assert!(matches!(d.deserialize_element::<$lty, tags::U8, u8>(), Ok(None)));
                assert!(d.finish(()).is_ok());
                assert!(rd.is_empty(), "typed decode consumes the whole encoding");
                // skip loop of the unit, at the top level and at the nesting limit
                let mut rd: &[u8] = &m2;
                match Deserializer::new(&mut rd, 0).unwrap().deserialize_map2::<$ktag>() {
                    Ok(d) => assert!(d.skip().is_ok()),
                    Err(_) => panic!("map2 header rejected"),
                }
                assert!(rd.is_empty(), "skip consumes exactly what decoding consumes");
                let mut rd: &[u8] = &m2;
                match Deserializer::new(&mut rd, 30).unwrap().deserialize_map2::<$ktag>() {
                    Ok(d) => assert!(d.skip().is_ok()),
                    Err(_) => panic!("map2 header rejected"),
                }
                let mut rd: &[u8] = &m2;
                match Deserializer::new(&mut rd, 31).unwrap().deserialize_map2::<$ktag>() {
                    Ok(d) => assert!(d.skip() == Err(DeserializeError::TooDeeplyNested)),
                    Err(_) => panic!("map2 header rejected"),
                }
                std::mem::forget(kv);
            }

            /// Map1: [MAP1, 1, key.., U8, v]
            #[kani::proof]
            #[kani::unwind($unwind)]
            fn q_c01_c07_map1() {
                let (kb, kv, v) = key();
                let mut m1 = [0u8; K + 4];
                m1[0] = <<$ktag as KeyTag>::Impl as KeyTagImpl>::VALUE_KIND_MAP1 as u8;
                m1[1] = 1;
                put_key(&mut m1, 2, &kb);
                m1[K + 2] = U8;
                m1[K + 3] = v;
                check_wellformed(&m1, 2);
                check_map1elem::<$ktag, $lty>(&m1, &kv, v);
                check_serialized(&m1, 2, |s: Serializer| s.serialize_map1_iter::<$ktag, $lty, tags::U8, u8, _>([(kv.clone(), v)]));
                std::mem::forget(kv);
            }

            /// Set2: [SET2, SOME, key.., NONE] - serializer and the real `Set2Deserializer` as a unit.
            #[kani::proof]
            #[kani::unwind($unwind)]
            fn q_c01_c07_set2() {
                let (kb, kv, _) = key();
                let mut s2 = [0u8; K + 3];
                s2[0] = <<$ktag as KeyTag>::Impl as KeyTagImpl>::VALUE_KIND_SET2 as u8;
                s2[1] = SOME;
                put_key(&mut s2, 2, &kb);
                s2[K + 2] = NONE;
                check_serialized(&s2, 1, |s: Serializer| s.serialize_set2_iter::<$ktag, _>([kv.clone()]));
                let mut rd: &[u8] = &s2;
                let mut d = match Deserializer::new(&mut rd, 0).unwrap().deserialize_set2::<$ktag>() {
                    Ok(d) => d,
                    Err(_) => panic!("set2 header rejected"),
                };
                match d.deserialize::<$lty>() {
                    Ok(Some(k)) => {
                        assert!(k == kv, "set element decoded wrongly");
                        std::mem::forget(k);
                    }
                    _ => panic!("first element missing"),
                }
                assert!(matches!(d.deserialize::<$lty>(), Ok(None)));
                assert!(d.finish(()).is_ok());
                assert!(rd.is_empty());
                let mut rd: &[u8] = &s2;
                match Deserializer::new(&mut rd, 31).unwrap().deserialize_set2::<$ktag>() {
                    Ok(d) => assert!(d.skip().is_ok()),
                    Err(_) => panic!("set2 header rejected"),
                }
                assert!(rd.is_empty(), "skip consumes exactly what decoding consumes");
                std::mem::forget(kv);
            }

            /// Set1: [SET1, 1, key..]
            #[kani::proof]
            #[kani::unwind($unwind)]
            fn q_c01_c07_set1() {
                let (kb, kv, _) = key();
                let mut s1 = [0u8; K + 2];
                s1[0] = <<$ktag as KeyTag>::Impl as KeyTagImpl>::VALUE_KIND_SET1 as u8;
                s1[1] = 1;
                put_key(&mut s1, 2, &kb);
                check_wellformed(&s1, 1);
                check_set1elem::<$ktag, $lty>(&s1, &kv);
                check_serialized(&s1, 1, |s: Serializer| s.serialize_set1_iter::<$ktag, _>([kv.clone()]));
                std::mem::forget(kv);
            }

            /// every proper prefix of the legacy encodings is rejected by skip
            #[kani::proof]
            #[kani::unwind($unwind)]
            fn q_c07_truncations() {
                let (kb, _kv, v) = key();
                let mut m1 = [0u8; K + 4];
                m1[0] = <<$ktag as KeyTag>::Impl as KeyTagImpl>::VALUE_KIND_MAP1 as u8;
                m1[1] = 1;
                put_key(&mut m1, 2, &kb);
                m1[K + 2] = U8;
                m1[K + 3] = v;
                all_prefixes_rejected(&m1);
                let mut s1 = [0u8; K + 2];
                s1[0] = <<$ktag as KeyTag>::Impl as KeyTagImpl>::VALUE_KIND_SET1 as u8;
                s1[1] = 1;
                put_key(&mut s1, 2, &kb);
                all_prefixes_rejected(&s1);
                std::mem::forget(_kv);
            }

            #[cfg(verif_replay)]
            include!(concat!("/verif/.cache/replay/verif__shapes_keys__", stringify!($m), ".rs"));
        }
    };
}

fn zz_dec(u: u64) -> i64 {
    ((u >> 1) as i64) ^ -((u & 1) as i64)
}

keyed_shapes!(keys_u8, 10, tags::U8, u8, 1, |s| true, [s[0]], s[0]);
#[cfg(not(verif_quick))]
keyed_shapes!(keys_i8, 10, tags::I8, i8, 1, |s| true, [s[0]], s[0] as i8);
#[cfg(not(verif_quick))]
keyed_shapes!(keys_u16_short, 10, tags::U16, u16, 1, |s| true, [253], 253u16);
keyed_shapes!(keys_u16_long, 12, tags::U16, u16, 3, |s| s[1] != 0, [255, s[0], s[1]], u16::from_le_bytes([s[0], s[1]]));
#[cfg(not(verif_quick))]
keyed_shapes!(keys_i16_long, 12, tags::I16, i16, 3, |s| s[1] != 0, [255, s[0], s[1]], zz_dec(u16::from_le_bytes([s[0], s[1]]) as u64) as i16);
#[cfg(not(verif_quick))]
keyed_shapes!(keys_u32_short, 10, tags::U32, u32, 1, |s| true, [251], 251u32);
#[cfg(not(verif_quick))]
keyed_shapes!(keys_u32_long, 14, tags::U32, u32, 5, |s| s[3] != 0, [255, s[0], s[1], s[2], s[3]], u32::from_le_bytes([s[0], s[1], s[2], s[3]]));
#[cfg(not(verif_quick))]
keyed_shapes!(keys_i32_long, 14, tags::I32, i32, 5, |s| s[3] != 0, [255, s[0], s[1], s[2], s[3]], zz_dec(u32::from_le_bytes([s[0], s[1], s[2], s[3]]) as u64) as i32);
#[cfg(not(verif_quick))]
keyed_shapes!(keys_u64_long, 18, tags::U64, u64, 9, |s| s[7] != 0, [255, s[0], s[1], s[2], s[3], s[4], s[5], s[6], s[7]], u64::from_le_bytes([s[0], s[1], s[2], s[3], s[4], s[5], s[6], s[7]]));
#[cfg(not(verif_quick))]
keyed_shapes!(keys_i64_long, 18, tags::I64, i64, 9, |s| s[7] != 0, [255, s[0], s[1], s[2], s[3], s[4], s[5], s[6], s[7]], zz_dec(u64::from_le_bytes([s[0], s[1], s[2], s[3], s[4], s[5], s[6], s[7]])));
#[cfg(not(verif_quick))]
keyed_shapes!(keys_uuid, 28, tags::Uuid, Uuid, 16, |s| true, s, Uuid::from_bytes(s));
// String keys: decoding a string goes through `bytes::Bytes` -> `Vec<u8>` -> `String::from_utf8`,
// which CBMC does not finish (12 GB); string keys are covered on the serializer side, by skip,
// and in the conversion harnesses only.
mod keys_string {
    use super::*;

    fn encs() -> ([u8; 7], [u8; 5]) {
        let s: [u8; 2] = kani::any();
        ([ValueKind::StringMap1 as u8, 1, 2, s[0], s[1], U8, kani::any()], [ValueKind::StringSet1 as u8, 1, 2, s[0], s[1]])
    }

    #[kani::proof]
    #[kani::unwind(12)]
    fn q_c07_skip_string_keys() {
        let (m1, s1) = encs();
        check_wellformed(&m1, 2);
        check_wellformed(&s1, 1);
    }

    #[kani::proof]
    #[kani::unwind(12)]
    fn q_c01_serialize_string_keys() {
        let c: [u8; 2] = kani::any();
        kani::assume(c[0] < 0x80 && c[1] < 0x80);
        let arr = [c[0], c[1]];
        let key = std::str::from_utf8(&arr).unwrap();
        let v: u8 = kani::any();
        let m2 = [ValueKind::StringMap2 as u8, SOME, 2, c[0], c[1], U8, v, NONE];
        check_serialized(&m2, 2, |s: Serializer| s.serialize_map2_iter::<tags::String, &str, tags::U8, u8, _>([(key, v)]));
        let s1 = [ValueKind::StringSet1 as u8, 1, 2, c[0], c[1]];
        check_serialized(&s1, 1, |s: Serializer| s.serialize_set1_iter::<tags::String, _>([key]));
    }

    #[cfg(verif_replay)]
    include!("/verif/.cache/replay/verif__shapes_keys__keys_string.rs");
}
