//! C01 / C07 on keyed container shapes: Map1/Map2/Set1/Set2 for every key tag, one element with
//! a symbolic key (literal varint form marker) and a `u8` value; plus two-element variants for
//! `u8` keys. Real skip walker, typed decoding through the real `KeyTagImpl::deserialize_key`,
//! real serializer units, nesting limit from every start depth.
use super::shape_common::*;
use super::*;
use crate::tags::{KeyTag, KeyTagImpl};

/// One harness per key encoding form. `$klen` = encoded key length, `$kb` = encoded key bytes
/// (array expression over the symbolic material `$s`), `$kv` = the key value these bytes denote.
macro_rules! keyed_shapes {
    ($name:ident, $unwind:expr, $ktag:ty, $lty:ty, $klen:expr, |$s:ident| $pre:expr, $kb:expr, $kv:expr) => {
        #[kani::proof]
        #[kani::unwind($unwind)]
        fn $name() {
            let $s: [u8; 16] = kani::any();
            kani::assume($pre);
            let kb: [u8; $klen] = $kb;
            let kv: $lty = $kv;
            let v: u8 = kani::any();
            let d = any_depth();
            const K: usize = $klen;
            let map1 = <<$ktag as KeyTag>::Impl as KeyTagImpl>::VALUE_KIND_MAP1 as u8;
            let map2 = <<$ktag as KeyTag>::Impl as KeyTagImpl>::VALUE_KIND_MAP2 as u8;
            let set1 = <<$ktag as KeyTag>::Impl as KeyTagImpl>::VALUE_KIND_SET1 as u8;
            let set2 = <<$ktag as KeyTag>::Impl as KeyTagImpl>::VALUE_KIND_SET2 as u8;

            // ---- Map2: [MAP2, SOME, key.., U8, v, NONE]
            let mut m2 = [0u8; K + 5];
            m2[0] = map2;
            m2[1] = SOME;
            let mut i = 0;
            while i < K {
                m2[2 + i] = kb[i];
                i += 1;
            }
            m2[K + 2] = U8;
            m2[K + 3] = v;
            m2[K + 4] = NONE;
            check_wellformed(&m2, 2, d);
            let (r, c) = run_map::<$ktag, $lty>(&m2, d);
            match &r {
                Ok(items) => {
                    assert!(d <= 30 && c == K + 5);
                    assert!(items.len() == 1 && items[0].0 == kv && items[0].1 == v, "map element decoded wrongly");
                }
                Err(e) => assert!(d > 30 && *e == DeserializeError::TooDeeplyNested),
            }
            std::mem::forget(r);
            check_serialized(&m2, 2, d, |s| s.serialize_map2_iter::<$ktag, $lty, tags::U8, u8, _>([(kv.clone(), v)]));
            let mut l = 0;
            while l < K + 5 {
                check_prefix_rejected(&m2, l);
                l += 1;
            }

            // ---- Map1: [MAP1, 1, key.., U8, v]
            let mut m1 = [0u8; K + 4];
            m1[0] = map1;
            m1[1] = 1;
            let mut i = 0;
            while i < K {
                m1[2 + i] = kb[i];
                i += 1;
            }
            m1[K + 2] = U8;
            m1[K + 3] = v;
            check_wellformed(&m1, 2, d);
            let (r, c) = run_map::<$ktag, $lty>(&m1, d);
            match &r {
                Ok(items) => {
                    assert!(d <= 30 && c == K + 4);
                    assert!(items.len() == 1 && items[0].0 == kv && items[0].1 == v);
                }
                Err(e) => assert!(d > 30 && *e == DeserializeError::TooDeeplyNested),
            }
            std::mem::forget(r);
            check_serialized(&m1, 2, d, |s| s.serialize_map1_iter::<$ktag, $lty, tags::U8, u8, _>([(kv.clone(), v)]));
            let mut l = 0;
            while l < K + 4 {
                check_prefix_rejected(&m1, l);
                l += 1;
            }

            // ---- Set2: [SET2, SOME, key.., NONE]
            let mut s2 = [0u8; K + 3];
            s2[0] = set2;
            s2[1] = SOME;
            let mut i = 0;
            while i < K {
                s2[2 + i] = kb[i];
                i += 1;
            }
            s2[K + 2] = NONE;
            check_wellformed(&s2, 1, d);
            let (r, c) = run_set::<$ktag, $lty>(&s2, d);
            match &r {
                Ok(items) => assert!(d <= 31 && c == K + 3 && items.len() == 1 && items[0] == kv),
                Err(e) => assert!(d > 31 && *e == DeserializeError::TooDeeplyNested),
            }
            std::mem::forget(r);
            check_serialized(&s2, 1, d, |s| s.serialize_set2_iter::<$ktag, _>([kv.clone()]));
            let mut l = 0;
            while l < K + 3 {
                check_prefix_rejected(&s2, l);
                l += 1;
            }

            // ---- Set1: [SET1, 1, key..]
            let mut s1 = [0u8; K + 2];
            s1[0] = set1;
            s1[1] = 1;
            let mut i = 0;
            while i < K {
                s1[2 + i] = kb[i];
                i += 1;
            }
            check_wellformed(&s1, 1, d);
            let (r, c) = run_set::<$ktag, $lty>(&s1, d);
            match &r {
                Ok(items) => assert!(d <= 31 && c == K + 2 && items.len() == 1 && items[0] == kv),
                Err(e) => assert!(d > 31 && *e == DeserializeError::TooDeeplyNested),
            }
            std::mem::forget(r);
            check_serialized(&s1, 1, d, |s| s.serialize_set1_iter::<$ktag, _>([kv.clone()]));
            let mut l = 0;
            while l < K + 2 {
                check_prefix_rejected(&s1, l);
                l += 1;
            }
            std::mem::forget(kv);
        }
    };
}

fn zz_dec(u: u64) -> i64 {
    ((u >> 1) as i64) ^ -((u & 1) as i64)
}

keyed_shapes!(q_c01_c07_keys_u8, 10, tags::U8, u8, 1, |s| true, [s[0]], s[0]);
keyed_shapes!(q_c01_c07_keys_i8, 10, tags::I8, i8, 1, |s| true, [s[0]], s[0] as i8);
keyed_shapes!(q_c01_c07_keys_u16_short, 10, tags::U16, u16, 1, |s| s[0] <= 253, [s[0]], s[0] as u16);
keyed_shapes!(q_c01_c07_keys_u16_long, 12, tags::U16, u16, 3, |s| s[1] != 0, [255, s[0], s[1]], u16::from_le_bytes([s[0], s[1]]));
keyed_shapes!(q_c01_c07_keys_i16_long, 12, tags::I16, i16, 3, |s| s[1] != 0, [255, s[0], s[1]], zz_dec(u16::from_le_bytes([s[0], s[1]]) as u64) as i16);
keyed_shapes!(q_c01_c07_keys_u32_short, 10, tags::U32, u32, 1, |s| s[0] <= 251, [s[0]], s[0] as u32);
keyed_shapes!(q_c01_c07_keys_u32_long, 14, tags::U32, u32, 5, |s| s[3] != 0, [255, s[0], s[1], s[2], s[3]], u32::from_le_bytes([s[0], s[1], s[2], s[3]]));
keyed_shapes!(q_c01_c07_keys_i32_long, 14, tags::I32, i32, 5, |s| s[3] != 0, [255, s[0], s[1], s[2], s[3]], zz_dec(u32::from_le_bytes([s[0], s[1], s[2], s[3]]) as u64) as i32);
keyed_shapes!(q_c01_c07_keys_u64_long, 18, tags::U64, u64, 9, |s| s[7] != 0, [255, s[0], s[1], s[2], s[3], s[4], s[5], s[6], s[7]], u64::from_le_bytes([s[0], s[1], s[2], s[3], s[4], s[5], s[6], s[7]]));
keyed_shapes!(q_c01_c07_keys_i64_long, 18, tags::I64, i64, 9, |s| s[7] != 0, [255, s[0], s[1], s[2], s[3], s[4], s[5], s[6], s[7]], zz_dec(u64::from_le_bytes([s[0], s[1], s[2], s[3], s[4], s[5], s[6], s[7]])));
keyed_shapes!(q_c01_c07_keys_uuid, 28, tags::Uuid, Uuid, 16, |s| true, s, Uuid::from_bytes(s));
keyed_shapes!(q_c01_c07_keys_string, 12, tags::String, String, 3, |s| s[0] < 0x80 && s[1] < 0x80, [2, s[0], s[1]], {
    let mut k = String::new();
    k.push(s[0] as char);
    k.push(s[1] as char);
    k
});
