//! Helpers of the shape harnesses (no harnesses in here).
//!
//! A *shape* is a complete encoding in which every framing byte (value kinds, element counts,
//! Some/None markers, the first byte of every varint) is a literal and every payload byte is
//! symbolic. All positions are then concrete, so the real recursive walkers (`Deserializer::skip`,
//! `Value::deserialize`, typed decoding, `Convert::convert`, the serializer) can be executed as a
//! whole - a kind byte read at a symbolic position would re-enter all 66 dispatcher arms.
use super::*;
use crate::tags::{KeyTag, Tag};
use crate::{DeserializeKey, SerializeKey};
use bytes::BytesMut;

pub(crate) const NONE: u8 = ValueKind::None as u8;
pub(crate) const SOME: u8 = ValueKind::Some as u8;
pub(crate) const U8: u8 = ValueKind::U8 as u8;

/// Arbitrary start depth; `Deserializer::new(buf, d)` is what a parent at depth `d` does.
pub(crate) fn any_depth() -> u8 {
    let d: u8 = kani::any();
    kani::assume(d <= 32);
    d
}

/// `enc` is a complete well-formed encoding nested `levels` deep (number of depth increments on
/// its deepest path). From start depth `d`: skip / len / split_off succeed and consume exactly
/// `enc` iff `d + levels <= 32`, otherwise they fail with the nesting error - never anything else.
pub(crate) fn check_wellformed(enc: &[u8], levels: u8, d: u8) {
    let fits = d as u32 + levels as u32 <= 32;
    let (rs, cs) = run_skip(enc, d);
    if fits {
        assert!(rs.is_ok() && cs == enc.len(), "skip accepts the well-formed encoding and consumes all of it");
        assert!(run_len(enc, d) == Ok(enc.len()));
        let (rp, cp) = run_split(enc, d);
        assert!(rp == Ok(enc.len()) && cp == enc.len());
    } else {
        assert!(rs == Err(DeserializeError::TooDeeplyNested), "nesting beyond 32 is rejected with the nesting error");
        assert!(run_len(enc, d) == Err(DeserializeError::TooDeeplyNested));
    }
}

/// Same for `Value::deserialize`, comparing with the expected value.
pub(crate) fn check_value(enc: &[u8], levels: u8, d: u8, expect: &Value) {
    let fits = d as u32 + levels as u32 <= 32;
    let (rv, cv) = run_value(enc, d);
    match &rv {
        Ok(v) => {
            assert!(fits && cv == enc.len());
            assert!(value_eq_bits(v, expect), "decoded value differs");
        }
        Err(e) => assert!(!fits && *e == DeserializeError::TooDeeplyNested),
    }
    std::mem::forget(rv);
}

/// Every listed proper prefix is rejected by skip (a value encoding is prefix-free).
pub(crate) fn check_prefix_rejected(enc: &[u8], l: usize) {
    let (rs, _) = run_skip(&enc[..l], 0);
    assert!(rs.is_err(), "a truncated encoding must be rejected by skip");
    assert!(run_len(&enc[..l], 0).is_err());
}

/// `out` (serializer / converter output) equals the reference encoding byte for byte.
pub(crate) fn same_bytes(out: &[u8], reference: &[u8]) -> bool {
    if out.len() != reference.len() {
        return false;
    }
    let mut i = 0;
    while i < reference.len() {
        if out[i] != reference[i] {
            return false;
        }
        i += 1;
    }
    true
}

/// Run a serializer closure from start depth `d`; `Ok(bytes equal to reference)` or the error.
pub(crate) fn check_serialized(
    reference: &[u8],
    levels: u8,
    d: u8,
    f: impl FnOnce(Serializer) -> Result<(), SerializeError>,
) {
    let fits = d as u32 + levels as u32 <= 32;
    let mut buf = BytesMut::new();
    let r = match Serializer::new(&mut buf, d) {
        Ok(s) => f(s),
        Err(e) => Err(e),
    };
    if fits {
        assert!(r.is_ok(), "serializing within the nesting limit succeeds");
        assert!(same_bytes(&buf, reference), "serializer output differs from the wire format");
    } else {
        assert!(r == Err(SerializeError::TooDeeplyNested), "serializer rejects nesting beyond 32 with the nesting error");
    }
}

pub(crate) fn run_map<K, L>(b: &[u8], d: u8) -> (Result<Vec<(L, u8)>, DeserializeError>, usize)
where
    K: KeyTag,
    L: DeserializeKey<K>,
{
    let mut rd = b;
    let r = match Deserializer::new(&mut rd, d) {
        Ok(de) => de.deserialize_map_extend_new::<K, L, tags::U8, u8, Vec<(L, u8)>>(),
        Err(e) => Err(e),
    };
    (r, b.len() - rd.len())
}

pub(crate) fn run_set<K, L>(b: &[u8], d: u8) -> (Result<Vec<L>, DeserializeError>, usize)
where
    K: KeyTag,
    L: DeserializeKey<K>,
{
    let mut rd = b;
    let r = match Deserializer::new(&mut rd, d) {
        Ok(de) => de.deserialize_set_extend_new::<K, L, Vec<L>>(),
        Err(e) => Err(e),
    };
    (r, b.len() - rd.len())
}
