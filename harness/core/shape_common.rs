//! Helpers of the shape harnesses (no harnesses in here).
//!
//! A *shape* is a complete encoding in which every framing byte (value kinds, element counts,
//! Some/None markers, the first byte of every varint) is a literal and every payload byte is
//! symbolic. All positions are then concrete, so the real recursive walkers (`Deserializer::skip`,
//! `Value::deserialize`, typed decoding, `Convert::convert`, the serializer) can be executed as a
//! whole - a kind byte read at a symbolic position would re-enter all 66 dispatcher arms.
use super::*;
use crate::tags::{KeyTag, Tag};
use crate::{DeserializeKey, SerializeKey};
use bytes::BytesMut;

pub(crate) const NONE: u8 = ValueKind::None as u8;
pub(crate) const SOME: u8 = ValueKind::Some as u8;
pub(crate) const U8: u8 = ValueKind::U8 as u8;

/// Start depths for a shape nested `levels` deep: 0, the deepest start that still fits
/// (`32 - levels`) and the first that does not (`33 - levels`). `Deserializer::new(buf, d)` is what
/// a parent at depth `d` does. The depths are concrete on purpose: with a symbolic depth the
/// `Result<Deserializer, _>` returned by `Deserializer::new` is merged over the error path, the
/// buffer pointer inside it stops being a constant for CBMC and the next kind byte re-enters all
/// 66 dispatcher arms (measured: 2 s concrete, > 90 s symbolic for `[Some, U8, x]`). That the
/// depth counter behaves the same for every depth is proved separately with a symbolic depth on
/// the constructors and on each nesting step (unit `depth`).
pub(crate) fn boundary_depths(levels: u8) -> [u8; 3] {
    [0, 32 - levels, 33 - levels]
}

/// `enc` is a complete well-formed encoding nested `levels` deep (number of depth increments on
/// its deepest path). From start depth `d`: skip / len / split_off succeed and consume exactly
/// `enc` iff `d + levels <= 32`, otherwise they fail with the nesting error - never anything else.
pub(crate) fn check_wellformed(enc: &[u8], levels: u8) {
    // top level: all three measuring entry points agree with the encoding's length
    let (rs, cs) = run_skip(enc, 0);
    assert!(rs.is_ok() && cs == enc.len(), "skip accepts the well-formed encoding and consumes all of it");
    assert!(run_len(enc, 0) == Ok(enc.len()), "len() equals the encoded length");
    let (rp, cp) = run_split(enc, 0);
    assert!(rp == Ok(enc.len()) && cp == enc.len(), "split_off yields exactly the value");
    // nesting limit: the deepest start that fits is accepted, one deeper is the nesting error
    let (rs, cs) = run_skip(enc, 32 - levels);
    assert!(rs.is_ok() && cs == enc.len(), "a value nested exactly 32 deep is accepted");
    assert!(run_len(enc, 32 - levels) == Ok(enc.len()), "len() accepts what skip accepts at the limit");
    let (rs, _) = run_skip(enc, 33 - levels);
    assert!(rs == Err(DeserializeError::TooDeeplyNested), "nesting beyond 32 is rejected with the nesting error");
}

/// Same for `Value::deserialize`, comparing with the expected value.
pub(crate) fn check_value(enc: &[u8], levels: u8, expect: &Value) {
    check_value_at(enc, levels, 32 - levels, expect);
    check_value_at(enc, levels, 33 - levels, expect);
}

pub(crate) fn check_value_at(enc: &[u8], levels: u8, d: u8, expect: &Value) {
    let fits = d as u32 + levels as u32 <= 32;
    let (rv, cv) = run_value(enc, d);
    match &rv {
        Ok(v) => {
            assert!(fits && cv == enc.len());
            assert!(value_eq_bits(v, expect), "decoded value differs");
        }
        Err(e) => assert!(!fits && *e == DeserializeError::TooDeeplyNested),
    }
    std::mem::forget(rv);
}

/// Every listed proper prefix is rejected by skip (a value encoding is prefix-free).
pub(crate) fn check_prefix_rejected(enc: &[u8], l: usize) {
    let (rs, _) = run_skip(&enc[..l], 0);
    assert!(rs.is_err(), "a truncated encoding must be rejected by skip");
}

/// `out` (serializer / converter output) equals the reference encoding byte for byte.
pub(crate) fn same_bytes(out: &[u8], reference: &[u8]) -> bool {
    if out.len() != reference.len() {
        return false;
    }
    let mut i = 0;
    while i < reference.len() {
        if out[i] != reference[i] {
            return false;
        }
        i += 1;
    }
    true
}

/// Run a serializer closure from start depth `d`; `Ok(bytes equal to reference)` or the error.
pub(crate) fn check_serialized(reference: &[u8], levels: u8, f: impl Fn(Serializer) -> Result<(), SerializeError>) {
    check_serialized_at(reference, levels, 32 - levels, &f);
    check_serialized_at(reference, levels, 33 - levels, &f);
}

pub(crate) fn check_serialized_at(
    reference: &[u8],
    levels: u8,
    d: u8,
    f: &impl Fn(Serializer) -> Result<(), SerializeError>,
) {
    let fits = d as u32 + levels as u32 <= 32;
    let mut buf = BytesMut::new();
    let r = match Serializer::new(&mut buf, d) {
        Ok(s) => f(s),
        Err(e) => Err(e),
    };
    if fits {
        assert!(r.is_ok(), "serializing within the nesting limit succeeds");
        assert!(same_bytes(&buf, reference), "serializer output differs from the wire format");
    } else {
        assert!(r == Err(SerializeError::TooDeeplyNested), "serializer rejects nesting beyond 32 with the nesting error");
    }
}

pub(crate) fn run_map<K, L>(b: &[u8], d: u8) -> (Result<Vec<(L, u8)>, DeserializeError>, usize)
where
    K: KeyTag,
    L: DeserializeKey<K>,
{
    let mut rd = b;
    let r = match Deserializer::new(&mut rd, d) {
        Ok(de) => de.deserialize_map_extend_new::<K, L, tags::U8, u8, Vec<(L, u8)>>(),
        Err(e) => Err(e),
    };
    (r, b.len() - rd.len())
}

pub(crate) fn run_set<K, L>(b: &[u8], d: u8) -> (Result<Vec<L>, DeserializeError>, usize)
where
    K: KeyTag,
    L: DeserializeKey<K>,
{
    let mut rd = b;
    let r = match Deserializer::new(&mut rd, d) {
        Ok(de) => de.deserialize_set_extend_new::<K, L, Vec<L>>(),
        Err(e) => Err(e),
    };
    (r, b.len() - rd.len())
}

/// Typed map decode of a one-element map encoding: the element at depth 0 and 30, nesting error at 31.
pub(crate) fn check_map1elem<K, L>(enc: &[u8], kv: &L, v: u8)
where
    K: KeyTag,
    L: DeserializeKey<K> + PartialEq,
{
    let (r, c) = run_map::<K, L>(enc, 0);
    match &r {
        Ok(items) => {
            assert!(c == enc.len(), "typed decode consumes the whole encoding");
            assert!(items.len() == 1 && items[0].0 == *kv && items[0].1 == v, "map element decoded wrongly");
        }
        Err(_) => panic!("typed map decode failed"),
    }
    std::mem::forget(r);
    let (r, _) = run_map::<K, L>(enc, 30);
    assert!(r.is_ok());
    std::mem::forget(r);
    let (r, _) = run_map::<K, L>(enc, 31);
    assert!(matches!(r, Err(DeserializeError::TooDeeplyNested)));
    std::mem::forget(r);
}

pub(crate) fn check_set1elem<K, L>(enc: &[u8], kv: &L)
where
    K: KeyTag,
    L: DeserializeKey<K> + PartialEq,
{
    let (r, c) = run_set::<K, L>(enc, 0);
    match &r {
        Ok(items) => assert!(c == enc.len() && items.len() == 1 && items[0] == *kv, "set element decoded wrongly"),
        Err(_) => panic!("typed set decode failed"),
    }
    std::mem::forget(r);
    let (r, _) = run_set::<K, L>(enc, 31);
    assert!(r.is_ok());
    std::mem::forget(r);
    let (r, _) = run_set::<K, L>(enc, 32);
    assert!(matches!(r, Err(DeserializeError::TooDeeplyNested)));
    std::mem::forget(r);
}
