//! Harness-generating macros shared by the units.

/// Real `SerializedValue::serialize(&Value)`, then the real `Value::deserialize`. The decoder is
/// handed a fixed-size array whose kind byte is the literal `$kind` (after asserting that the
/// serializer wrote exactly that byte): CBMC cannot keep the kind concrete through `BytesMut`, and
/// a symbolic kind re-enters all 66 arms of the dispatcher (DESIGN.md section 1).
macro_rules! leaf_roundtrip {
    ($name:ident, $unwind:expr, $max:expr, $kind:expr, |$v:ident: $ty:ty| $mk:expr, $exp_len:expr) => {
        #[kani::proof]
        #[kani::unwind($unwind)]
        fn $name() {
            let $v: $ty = kani::any();
            let val: Value = $mk;
            let ser = SerializedValue::serialize(&val).unwrap();
            let bytes: &[u8] = &ser;
            let n = bytes.len();
            assert!(n >= 1 && n <= $max);
            let exp_len: Option<usize> = $exp_len;
            if let Some(e) = exp_len {
                assert!(n == e, "encoded length differs from the format");
            }
            assert!(bytes[0] == $kind as u8, "wrong kind byte written");
            let mut arr = [0u8; $max];
            let mut i = 1;
            while i < $max {
                if i < n {
                    arr[i] = bytes[i];
                }
                i += 1;
            }
            arr[0] = $kind as u8;
            let mut rd: &[u8] = &arr[..];
            let d = Deserializer::new(&mut rd, 0).unwrap();
            let back = Value::deserialize(d);
            let Ok(back) = back else { panic!("decode of a freshly encoded value failed") };
            assert!($max - rd.len() == n, "decoder consumed a different number of bytes than were written");
            assert!(value_eq_bits(&val, &back), "round trip changed the value");
            // skip agrees
            let (rs, cs) = run_skip(&arr[..], 0);
            assert!(rs.is_ok() && cs == n);
            std::mem::forget(val);
            std::mem::forget(back);
        }
    };
}


macro_rules! leaf_total {
    ($name:ident, $unwind:expr, $kind:expr, $plen:expr, [$($l:expr),*]) => {
        #[kani::proof]
        #[kani::unwind($unwind)]
        fn $name() {
            let p: [u8; $plen] = kani::any();
            let mut arr = [0u8; $plen + 1];
            let mut i = 0;
            while i < $plen {
                arr[i + 1] = p[i];
                i += 1;
            }
            arr[0] = $kind as u8;
            // concrete start depths (a symbolic depth defeats CBMC's constant propagation, see
            // shape_common::boundary_depths): top level and the deepest legal position
            $(
                check_leaf_prefix($kind, &arr[..$l], 0);
            )*
            // the complete value once more at the deepest legal position
            check_leaf_prefix($kind, &arr[..], 31);
        }
    };
}

