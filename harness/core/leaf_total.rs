//! C07: leaf kinds through the real dispatcher - totality, skip == decode == len == split_off.
use super::leaf_common::*;
use super::*;

// ---------------------------------------------------------------------------------------------
// C07: leaf kinds through the real dispatcher: totality and skip == decode, every truncation
// ---------------------------------------------------------------------------------------------

leaf_total!(q_c07_leaf_none, 6, ValueKind::None, 1, [1, 2]);
leaf_total!(q_c07_leaf_bool, 6, ValueKind::Bool, 2, [1, 2, 3]);
leaf_total!(q_c07_leaf_u8, 6, ValueKind::U8, 2, [1, 2, 3]);
#[cfg(not(verif_quick))]
leaf_total!(q_c07_leaf_i8, 6, ValueKind::I8, 2, [1, 2, 3]);
leaf_total!(q_c07_leaf_u16, 8, ValueKind::U16, 4, [1, 2, 3, 4]);
#[cfg(not(verif_quick))]
leaf_total!(q_c07_leaf_i16, 8, ValueKind::I16, 4, [1, 2, 3, 4]);
leaf_total!(q_c07_leaf_u32, 10, ValueKind::U32, 6, [1, 2, 5, 6]);
#[cfg(not(verif_quick))]
leaf_total!(q_c07_leaf_i32, 10, ValueKind::I32, 6, [1, 2, 5, 6]);
#[cfg(not(verif_quick))]
leaf_total!(q_c07_leaf_u64, 14, ValueKind::U64, 10, [1, 2, 9, 10]);
#[cfg(not(verif_quick))]
leaf_total!(q_c07_leaf_i64, 14, ValueKind::I64, 10, [1, 2, 9, 10]);
#[cfg(not(verif_quick))]
leaf_total!(q_c07_leaf_f32, 10, ValueKind::F32, 5, [1, 2, 4, 5, 6]);
leaf_total!(q_c07_leaf_f64, 14, ValueKind::F64, 9, [1, 2, 8, 9, 10]);
leaf_total!(q_c07_leaf_uuid, 22, ValueKind::Uuid, 17, [1, 16, 17]);
#[cfg(not(verif_quick))]
leaf_total!(q_c07_leaf_sender, 22, ValueKind::Sender, 17, [1, 16, 17]);
#[cfg(not(verif_quick))]
leaf_total!(q_c07_leaf_receiver, 22, ValueKind::Receiver, 17, [1, 16, 17]);

#[kani::proof]
#[kani::unwind(8)]
fn q_c07_leaf_string() {
    let c: [u8; 2] = kani::any();
    check_string(&[ValueKind::String as u8, 2, c[0], c[1]], 2, 2);
}

#[kani::proof]
#[kani::unwind(8)]
fn q_c07_leaf_string_truncated() {
    let c: [u8; 1] = kani::any();
    check_string(&[ValueKind::String as u8, 0], 2, 0);
    check_string(&[ValueKind::String as u8, 2, c[0]], 2, 2);
    check_string(&[ValueKind::String as u8], 2, 0);
}

/// Kind bytes: `ValueKind::try_from` accepts exactly 0..=65 and is the identity on them; the
/// dispatcher entry points report `InvalidSerialization` for every other byte (the conversion
/// happens before the 66-arm match, so a symbolic invalid kind is tractable).
#[kani::proof]
#[kani::unwind(4)]
fn q_c07_kind_byte() {
    let b: u8 = kani::any();
    match ValueKind::try_from(b) {
        Ok(k) => assert!(b <= 65 && k as u8 == b),
        Err(_) => assert!(b > 65),
    }
    // the entry points are driven with literal invalid kinds (a symbolic kind byte would be
    // explored through all 66 dispatcher arms although the conversion fails first)
    let x: u8 = kani::any();
    let mut i = 0;
    while i < 3 {
        let k = [66u8, 128, 255][i];
        let arr = [k, x];
        let (rs, cs) = run_skip(&arr, 0);
        assert!(rs == Err(DeserializeError::InvalidSerialization) && cs == 1);
        assert!(run_len(&arr, 0) == Err(DeserializeError::InvalidSerialization));
        let mut rd: &[u8] = &arr;
        assert!(Deserializer::new(&mut rd, 0).unwrap().peek_value_kind() == Err(DeserializeError::InvalidSerialization));
        let (rv, _) = run_value(&arr, 0);
        assert!(matches!(rv, Err(DeserializeError::InvalidSerialization)));
        i += 1;
    }
    let empty: [u8; 0] = [];
    let (re, _) = run_skip(&empty, 0);
    assert!(re == Err(DeserializeError::UnexpectedEoi));
}

#[cfg(verif_replay)]
include!("/verif/.cache/replay/verif__leaf_total.rs");
