//! Kani proof harnesses for aldrin-core. Compiled only under `cfg(kani)` through the hook at the
//! end of core/src/lib.rs; every harness runs the real crate code.
#![allow(dead_code, unused_imports, missing_debug_implementations, unreachable_pub, unnameable_types)]

pub(crate) use crate::tags;
pub(crate) use crate::{
    Bytes, ChannelCookie, Deserialize, DeserializeError, Deserializer, ObjectCookie, ObjectId,
    ObjectUuid, ProtocolVersion, Serialize, SerializeError, SerializedValue, SerializedValueSlice,
    Serializer, ServiceCookie, ServiceId, ServiceUuid, Value, ValueConversionError, ValueKind,
};
pub(crate) use uuid::Uuid;

// One *unit* = one file = one `cargo kani` build (selected with `--cfg verif_unit="<name>"`, own
// target directory). Kani generates code for every harness that is compiled in, at ~8 s per
// harness for this crate, so a build must contain only the harnesses it is going to run.
#[macro_use]
mod macros;
pub(crate) mod leaf_common;
pub(crate) mod shape_common;
#[cfg(any(verif_unit = "all", verif_unit = "messages_0", verif_unit = "messages_1", verif_unit = "messages_2", verif_unit = "messages_3", verif_unit = "messages_4", verif_unit = "messages_5", verif_unit = "messages_q0", verif_unit = "messages_q1", verif_unit = "messages_q2", verif_unit = "packetizer", verif_unit = "transport"))]
pub(crate) mod messages_common;
#[cfg(any(verif_unit = "all", verif_unit = "messages_0", verif_unit = "messages_1", verif_unit = "messages_2", verif_unit = "messages_3", verif_unit = "messages_4", verif_unit = "messages_5", verif_unit = "messages_q0", verif_unit = "messages_q1", verif_unit = "messages_q2"))]
mod messages_gen;
#[cfg(any(verif_unit = "all", verif_unit = "packetizer"))]
mod packetizer;
#[cfg(any(verif_unit = "all", verif_unit = "transport"))]
mod transport;
#[cfg(all(feature = "tokio", any(verif_unit = "all", verif_unit = "tokio_transport")))]
mod tokio_transport;

#[cfg(any(verif_unit = "all", verif_unit = "buf_ext"))]
mod buf_ext;
#[cfg(any(verif_unit = "all", verif_unit = "leaf_rt"))]
mod leaf_rt;
#[cfg(any(verif_unit = "all", verif_unit = "leaf_rt_t"))]
mod leaf_rt_t;
#[cfg(any(verif_unit = "all", verif_unit = "leaf_total"))]
mod leaf_total;
#[cfg(any(verif_unit = "all", verif_unit = "leaf_total_t"))]
mod leaf_total_t;

/// `Deserializer::skip` on `b`, started at nesting depth `depth`: result and bytes consumed.
pub(crate) fn run_skip(b: &[u8], depth: u8) -> (Result<(), DeserializeError>, usize) {
    let mut rd = b;
    let r = match Deserializer::new(&mut rd, depth) {
        Ok(d) => d.skip(),
        Err(e) => Err(e),
    };
    (r, b.len() - rd.len())
}

/// `Value::deserialize` on `b`.
pub(crate) fn run_value(b: &[u8], depth: u8) -> (Result<Value, DeserializeError>, usize) {
    let mut rd = b;
    let r = match Deserializer::new(&mut rd, depth) {
        Ok(d) => Value::deserialize(d),
        Err(e) => Err(e),
    };
    (r, b.len() - rd.len())
}

pub(crate) fn run_len(b: &[u8], depth: u8) -> Result<usize, DeserializeError> {
    let mut rd = b;
    match Deserializer::new(&mut rd, depth) {
        Ok(d) => d.len(),
        Err(e) => Err(e),
    }
}

/// `split_off_serialized_value`: (length of the split-off value, bytes consumed from `b`).
pub(crate) fn run_split(b: &[u8], depth: u8) -> (Result<usize, DeserializeError>, usize) {
    let mut rd = b;
    let r = match Deserializer::new(&mut rd, depth) {
        Ok(d) => d.split_off_serialized_value().map(|s| {
            // the split-off slice is a prefix of the input
            assert!(s.as_ptr() == b.as_ptr());
            s.len()
        }),
        Err(e) => Err(e),
    };
    (r, b.len() - rd.len())
}

/// Structural equality with floats compared bit-for-bit (so NaN payloads count); only the kinds
/// that the harnesses build (no hash containers).
pub(crate) fn value_eq_bits(a: &Value, b: &Value) -> bool {
    match (a, b) {
        (Value::None, Value::None) => true,
        (Value::Some(x), Value::Some(y)) => value_eq_bits(x, y),
        (Value::Bool(x), Value::Bool(y)) => x == y,
        (Value::U8(x), Value::U8(y)) => x == y,
        (Value::I8(x), Value::I8(y)) => x == y,
        (Value::U16(x), Value::U16(y)) => x == y,
        (Value::I16(x), Value::I16(y)) => x == y,
        (Value::U32(x), Value::U32(y)) => x == y,
        (Value::I32(x), Value::I32(y)) => x == y,
        (Value::U64(x), Value::U64(y)) => x == y,
        (Value::I64(x), Value::I64(y)) => x == y,
        (Value::F32(x), Value::F32(y)) => x.to_bits() == y.to_bits(),
        (Value::F64(x), Value::F64(y)) => x.to_bits() == y.to_bits(),
        (Value::Uuid(x), Value::Uuid(y)) => x.as_bytes() == y.as_bytes(),
        (Value::Sender(x), Value::Sender(y)) => x.0.as_bytes() == y.0.as_bytes(),
        (Value::Receiver(x), Value::Receiver(y)) => x.0.as_bytes() == y.0.as_bytes(),
        (Value::ObjectId(x), Value::ObjectId(y)) => {
            x.uuid.0.as_bytes() == y.uuid.0.as_bytes() && x.cookie.0.as_bytes() == y.cookie.0.as_bytes()
        }
        (Value::ServiceId(x), Value::ServiceId(y)) => {
            x.object_id.uuid.0.as_bytes() == y.object_id.uuid.0.as_bytes()
                && x.object_id.cookie.0.as_bytes() == y.object_id.cookie.0.as_bytes()
                && x.uuid.0.as_bytes() == y.uuid.0.as_bytes()
                && x.cookie.0.as_bytes() == y.cookie.0.as_bytes()
        }
        (Value::Vec(x), Value::Vec(y)) => {
            if x.len() != y.len() {
                return false;
            }
            let mut i = 0;
            while i < x.len() {
                if !value_eq_bits(&x[i], &y[i]) {
                    return false;
                }
                i += 1;
            }
            true
        }
        (Value::Bytes(x), Value::Bytes(y)) => x.0 == y.0,
        (Value::Enum(x), Value::Enum(y)) => x.id == y.id && value_eq_bits(&x.value, &y.value),
        _ => false,
    }
}
#[cfg(any(verif_unit = "probe"))]
mod probe;
#[cfg(any(verif_unit = "all", verif_unit = "shapes_basic"))]
mod shapes_basic;
#[cfg(any(verif_unit = "all", verif_unit = "shapes_keys"))]
mod shapes_keys;
#[cfg(any(verif_unit = "all", verif_unit = "shapes_struct", verif_unit = "shapes_struct_t"))]
mod shapes_struct;
#[cfg(any(verif_unit = "all", verif_unit = "value_routing"))]
mod value_routing;
