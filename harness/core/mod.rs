//! Kani proof harnesses for aldrin-core. Compiled only under `cfg(kani)` through the hook at the
//! end of core/src/lib.rs; every harness runs the real crate code.
#![allow(dead_code, unused_imports, missing_debug_implementations, unreachable_pub, unnameable_types)]

mod buf_ext;
mod leaf;
