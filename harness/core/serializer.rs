//! C01-d (unit `depth`): the serializer's nesting counter for every parent depth (symbolic); see
//! harness/core/deserializer.rs. Child module of core/src/serializer.rs.
#![allow(dead_code, unused_imports, missing_debug_implementations, unreachable_pub, unnameable_types, static_mut_refs)]
#![cfg(any(verif_unit = "all", verif_unit = "depth"))]

use super::*;

static mut SEEN: u8 = 0xff;

struct DepthProbe;

impl Serialize<tags::Unit> for DepthProbe {
    fn serialize(self, s: Serializer) -> Result<(), SerializeError> {
        unsafe { SEEN = s.depth };
        Ok(())
    }
}

fn seen() -> u8 {
    unsafe { SEEN }
}

fn any_parent_depth() -> u8 {
    let d: u8 = kani::any();
    kani::assume(d >= 1 && d <= 32);
    d
}

fn expect_child<T>(r: Result<T, SerializeError>, parent: u8) {
    match r {
        Ok(_) => assert!(parent < 32 && seen() == parent + 1, "child is created exactly one level deeper"),
        Err(e) => assert!(parent == 32 && e == SerializeError::TooDeeplyNested, "only nesting beyond 32 fails, with the nesting error"),
    }
}

#[kani::proof]
#[kani::unwind(6)]
fn q_c01_depth_ser_constructor() {
    let d: u8 = kani::any();
    kani::assume(d <= 32);
    let mut buf = BytesMut::new();
    match Serializer::new(&mut buf, d) {
        Ok(s) => assert!(d <= 31 && s.depth == d + 1),
        Err(e) => assert!(d == 32 && e == SerializeError::TooDeeplyNested),
    }
}

#[kani::proof]
#[kani::unwind(6)]
fn q_c01_depth_ser_some_enum() {
    let d = any_parent_depth();
    let mut buf = BytesMut::new();
    let s = Serializer { buf: &mut buf, depth: d };
    expect_child(s.serialize_some::<tags::Unit>(DepthProbe), d);
    let mut buf = BytesMut::new();
    let s = Serializer { buf: &mut buf, depth: d };
    expect_child(s.serialize_enum::<tags::Unit>(5u32, DepthProbe), d);
}

#[kani::proof]
#[kani::unwind(6)]
fn q_c01_depth_ser_vec() {
    let d = any_parent_depth();
    let mut buf = BytesMut::new();
    let mut v = Vec1Serializer::new(&mut buf, 1, d).unwrap();
    expect_child(v.serialize::<tags::Unit>(DepthProbe).map(|_| ()), d);
    let mut buf = BytesMut::new();
    let mut v = Vec2Serializer::new(&mut buf, d).unwrap();
    expect_child(v.serialize::<tags::Unit>(DepthProbe).map(|_| ()), d);
}

#[kani::proof]
#[kani::unwind(6)]
fn q_c01_depth_ser_map() {
    let d = any_parent_depth();
    let k: u8 = kani::any();
    let mut buf = BytesMut::new();
    let mut m = Map1Serializer::<tags::U8>::new(&mut buf, 1, d).unwrap();
    expect_child(m.serialize::<tags::Unit>(&k, DepthProbe).map(|_| ()), d);
    let mut buf = BytesMut::new();
    let mut m = Map2Serializer::<tags::U8>::new(&mut buf, d).unwrap();
    expect_child(m.serialize::<tags::Unit>(&k, DepthProbe).map(|_| ()), d);
}

#[kani::proof]
#[kani::unwind(6)]
fn q_c01_depth_ser_struct() {
    let d = any_parent_depth();
    let mut buf = BytesMut::new();
    let mut s = Struct1Serializer::new(&mut buf, 1, d).unwrap();
    expect_child(s.serialize::<tags::Unit>(3u32, DepthProbe).map(|_| ()), d);
    let mut buf = BytesMut::new();
    let mut s = Struct2Serializer::new(&mut buf, d).unwrap();
    expect_child(s.serialize::<tags::Unit>(3u32, DepthProbe).map(|_| ()), d);
}

#[cfg(verif_replay)]
include!("/verif/.cache/replay/serializer__verif.rs");
