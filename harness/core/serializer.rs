//! Harnesses that need private items of core/src/serializer.rs (child module, cfg(kani) only).
#![allow(dead_code, unused_imports, missing_debug_implementations, unreachable_pub, unnameable_types)]
