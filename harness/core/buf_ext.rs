//! C01-a: varint / zigzag kernels of core/src/buf_ext.rs, full width.
use crate::buf_ext::{BufMutExt, ValueBufExt};

#[kani::proof]
#[kani::unwind(6)]
fn c01a_varint_u32_roundtrip() {
    let v: u32 = kani::any();
    let mut out: Vec<u8> = Vec::new();
    out.put_varint_u32_le(v);
    let n = out.len();
    assert!(n >= 1 && n <= 5);
    let mut rd: &[u8] = &out[..];
    let back = rd.try_get_varint_u32_le();
    assert!(back == Ok(v));
    assert!(rd.is_empty());
    kani::cover!(n == 1);
    kani::cover!(n == 5);
}
