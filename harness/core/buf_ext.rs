//! C01-a / C07: varint and zigzag kernels of core/src/buf_ext.rs, full width.
use crate::buf_ext::{BufMutExt, MessageBufExt, ValueBufExt};
use crate::DeserializeError;

/// put_varint then try_get_varint returns the value, consumes exactly what was written, and the
/// encoded length is `1` iff `v <= 255 - N`, else `1 + number of significant bytes`.
macro_rules! varint_rt {
    ($name:ident, $unwind:expr, $ty:ty, $uty:ty, $n:expr, $put:ident, $get:ident, |$v:ident| $unsigned:expr) => {
        #[kani::proof]
        #[kani::unwind($unwind)]
        fn $name() {
            let $v: $ty = kani::any();
            let mut out: Vec<u8> = Vec::with_capacity(16);
            out.$put($v);
            let n = out.len();
            let u: $uty = $unsigned;
            let mut sig = 1usize;
            let mut x = u >> 8;
            while x != 0 {
                sig += 1;
                x >>= 8;
            }
            let expect = if (u as u64) <= 255 - $n { 1 } else { 1 + sig };
            assert!(n == expect, "encoded length");
            if expect > 1 {
                assert!(out[0] as usize == 255 - $n + sig, "length marker");
            }
            let mut rd: &[u8] = &out[..];
            let back = ValueBufExt::$get(&mut rd);
            assert!(back == Ok($v), "varint round trip");
            assert!(rd.is_empty(), "decoder consumed exactly the encoding");
            // skipping consumes the same
            let mut rd2: &[u8] = &out[..];
            assert!(rd2.try_skip_varint_le::<$n>().is_ok() && rd2.is_empty());
            kani::cover!(n == 1);
            kani::cover!(n == $n + 1);
        }
    };
}

varint_rt!(q_c01_varint_u16, 6, u16, u16, 2, put_varint_u16_le, try_get_varint_u16_le, |v| v);
varint_rt!(q_c01_varint_i16, 6, i16, u16, 2, put_varint_i16_le, try_get_varint_i16_le, |v| ((v << 1) ^ (v >> 15)) as u16);
varint_rt!(q_c01_varint_u32, 8, u32, u32, 4, put_varint_u32_le, try_get_varint_u32_le, |v| v);
varint_rt!(q_c01_varint_i32, 8, i32, u32, 4, put_varint_i32_le, try_get_varint_i32_le, |v| ((v << 1) ^ (v >> 31)) as u32);
#[cfg(not(verif_quick))]
varint_rt!(q_c01_varint_u64, 12, u64, u64, 8, put_varint_u64_le, try_get_varint_u64_le, |v| v);
#[cfg(not(verif_quick))]
varint_rt!(q_c01_varint_i64, 12, i64, u64, 8, put_varint_i64_le, try_get_varint_i64_le, |v| ((v << 1) ^ (v >> 63)) as u64);

/// Zigzag is a bijection and maps small magnitudes to small codes (checked through the
/// signed/unsigned varint entry points, the zigzag functions themselves are private).
macro_rules! zigzag_laws {
    ($name:ident, $unwind:expr, $ity:ty, $uty:ty, $puti:ident, $putu:ident, $geti:ident) => {
        #[kani::proof]
        #[kani::unwind($unwind)]
        fn $name() {
            let c: $ity = kani::any();
            let spec: $uty = if c >= 0 { (c as $uty) << 1 } else { (((-(c + 1)) as $uty) << 1) | 1 };
            let mut o1: Vec<u8> = Vec::with_capacity(16);
            let mut o2: Vec<u8> = Vec::with_capacity(16);
            o1.$puti(c);
            o2.$putu(spec);
            assert!(o1.len() == o2.len());
            let mut i = 0;
            while i < o1.len() {
                assert!(o1[i] == o2[i], "signed varint = unsigned varint of the zigzag code");
                i += 1;
            }
            // every unsigned code decodes to the signed value whose code it is (surjective)
            let u: $uty = kani::any();
            let mut o3: Vec<u8> = Vec::with_capacity(16);
            o3.$putu(u);
            let mut rd: &[u8] = &o3[..];
            let x = ValueBufExt::$geti(&mut rd).unwrap();
            let back: $uty = if x >= 0 { (x as $uty) << 1 } else { (((-(x + 1)) as $uty) << 1) | 1 };
            assert!(back == u);
        }
    };
}

zigzag_laws!(q_c01_zigzag_i16, 6, i16, u16, put_varint_i16_le, put_varint_u16_le, try_get_varint_i16_le);
zigzag_laws!(q_c01_zigzag_i32, 8, i32, u32, put_varint_i32_le, put_varint_u32_le, try_get_varint_i32_le);
#[cfg(not(verif_quick))]
zigzag_laws!(q_c01_zigzag_i64, 12, i64, u64, put_varint_i64_le, put_varint_u64_le, try_get_varint_i64_le);

/// Arbitrary bytes: try_get_varint and try_skip_varint never panic, consume the same number of
/// bytes, fail exactly on truncation, and accept non-canonical encodings without over-reading.
macro_rules! varint_total {
    ($name:ident, $unwind:expr, $n:expr, $get:ident, [$($l:expr),*]) => {
        #[kani::proof]
        #[kani::unwind($unwind)]
        fn $name() {
            let arr: [u8; $n + 2] = kani::any();
            $(
                {
                    let b: &[u8] = &arr[..$l];
                    let mut r1 = b;
                    let g = ValueBufExt::$get(&mut r1);
                    let mut r2 = b;
                    let s = r2.try_skip_varint_le::<$n>();
                    let need = if b.is_empty() { None } else {
                        let f = b[0] as usize;
                        Some(if f > 255 - $n { 1 + (f + $n - 255) } else { 1 })
                    };
                    let ok = need.map(|n| b.len() >= n).unwrap_or(false);
                    assert!(g.is_ok() == ok && s.is_ok() == ok);
                    if ok {
                        assert!(b.len() - r1.len() == need.unwrap());
                        assert!(b.len() - r2.len() == need.unwrap());
                    } else {
                        assert!(g == Err(DeserializeError::UnexpectedEoi));
                    }
                }
            )*
        }
    };
}

varint_total!(q_c07_varint_total_u16, 6, 2, try_get_varint_u16_le, [0, 1, 2, 3, 4]);
varint_total!(q_c07_varint_total_u32, 8, 4, try_get_varint_u32_le, [0, 1, 2, 3, 4, 5, 6]);
#[cfg(not(verif_quick))]
varint_total!(q_c07_varint_total_u64, 12, 8, try_get_varint_u64_le, [0, 1, 2, 5, 8, 9, 10]);

#[cfg(verif_replay)]
include!("/verif/.cache/replay/verif__buf_ext.rs");
