//! C08 / C14: helpers of the message codec harnesses (no harnesses in here).
//!
//! A frame is built as a byte array with literal framing - the 4-byte length prefix, the kind
//! byte, the value length, enum discriminants and the first byte of every varint are literals,
//! ids / serials / payload bytes are symbolic - so that all positions are concrete for CBMC, and
//! handed to the real parsers as `BytesMut::from(&frame[..])`. (Parsing the `BytesMut` that the
//! real serializer produced does not finish: its length is symbolic through the canonical varint
//! encoding.) The real serializer's output is compared byte for byte with the same frame.
pub(crate) use crate::message::*;
pub(crate) use crate::{
    BusEvent, BusListenerCookie, BusListenerFilter, BusListenerScope, ChannelEnd, ChannelEndWithCapacity, TypeId,
};
use super::*;
use bytes::BytesMut;

pub(crate) const FRAME_CAP: usize = 112;

pub(crate) struct Frame {
    pub buf: [u8; FRAME_CAP],
    pub len: usize,
}

impl Frame {
    /// `[len: 4][kind]`
    pub(crate) fn without_value(kind: u8) -> Self {
        let mut buf = [0u8; FRAME_CAP];
        buf[4] = kind;
        Self { buf, len: 5 }
    }

    /// `[len: 4][kind][value length: 4][value ..]`
    pub(crate) fn with_value(kind: u8, value: &[u8]) -> Self {
        let mut f = Self::without_value(kind);
        f.buf[5] = value.len() as u8;
        f.len = 9;
        let mut i = 0;
        while i < value.len() {
            f.byte(value[i]);
            i += 1;
        }
        f
    }

    pub(crate) fn byte(&mut self, b: u8) {
        self.buf[self.len] = b;
        self.len += 1;
    }

    /// u32 in the full-width varint form `[255, b0, b1, b2, b3]` (canonical iff `b3 != 0`)
    pub(crate) fn v32_wide(&mut self, b: [u8; 4]) {
        self.byte(255);
        self.byte(b[0]);
        self.byte(b[1]);
        self.byte(b[2]);
        self.byte(b[3]);
    }

    pub(crate) fn uuid(&mut self, u: [u8; 16]) {
        let mut i = 0;
        while i < 16 {
            self.byte(u[i]);
            i += 1;
        }
    }

    /// writes the length prefix
    pub(crate) fn finish(&mut self) {
        self.buf[0] = self.len as u8;
    }

    pub(crate) fn bytes(&self) -> &[u8] {
        &self.buf[..self.len]
    }
}

pub(crate) fn same_bytes(out: &[u8], reference: &[u8]) -> bool {
    if out.len() != reference.len() {
        return false;
    }
    let mut i = 0;
    while i < reference.len() {
        if out[i] != reference[i] {
            return false;
        }
        i += 1;
    }
    true
}

/// Parsing the frame with the message's own parser yields the expected message.
pub(crate) fn check_decode<M>(f: &Frame, expect: M)
where
    M: MessageOps + Clone + PartialEq + Into<Message>,
{
    let r = M::deserialize_message(BytesMut::from(f.bytes()));
    match &r {
        Ok(m) => assert!(*m == expect, "parsed message differs from the frame's content"),
        Err(_) => panic!("well-formed frame rejected"),
    }
    std::mem::forget(r);
    std::mem::forget(expect);
}

/// ... and so does the kind dispatch of `Message::deserialize_message`.
pub(crate) fn check_dispatch<M>(f: &Frame, expect: M)
where
    M: MessageOps + Clone + PartialEq + Into<Message>,
{
    // byte-wise stores instead of a memcpy: the kind byte has to stay a constant for CBMC, or all
    // 63 parsers behind the dispatch are explored
    let mut b = BytesMut::with_capacity(FRAME_CAP);
    let mut i = 0;
    while i < f.len {
        bytes::BufMut::put_u8(&mut b, f.buf[i]);
        i += 1;
    }
    let r = Message::deserialize_message(b);
    let want: Message = expect.into();
    match &r {
        Ok(m) => assert!(*m == want, "kind dispatch parsed a different message"),
        Err(_) => panic!("well-formed frame rejected by Message::deserialize_message"),
    }
    std::mem::forget(r);
    std::mem::forget(want);
}

/// The real serializer writes exactly the frame: length prefix = frame length, kind, layout.
pub(crate) fn check_serialize<M>(f: &Frame, msg: M)
where
    M: MessageOps + Clone + PartialEq + Into<Message>,
{
    assert!(u32::from_le_bytes([f.buf[0], f.buf[1], f.buf[2], f.buf[3]]) as usize == f.len);
    let out = match msg.clone().serialize_message() {
        Ok(o) => o,
        Err(_) => panic!("serialization failed"),
    };
    assert!(same_bytes(&out, f.bytes()), "serialized frame differs from the wire layout");
    let m: Message = msg.into();
    let out2 = match m.serialize_message() {
        Ok(o) => o,
        Err(_) => panic!("serialization through Message failed"),
    };
    assert!(same_bytes(&out2, f.bytes()), "Message::serialize_message writes a different frame");
}

/// Strictness, one mutation per harness (each parse is a CBMC run of its own; five in one run
/// did not finish): the length prefix one too large / one too small ...
pub(crate) fn check_prefix<M>(f: &Frame, _msg: M, delta_up: bool)
where
    M: MessageOps + Clone + PartialEq + Into<Message>,
{
    std::mem::forget(_msg);
    let mut g = Frame { buf: f.buf, len: f.len };
    g.buf[0] = if delta_up { (f.len + 1) as u8 } else { (f.len - 1) as u8 };
    let r = M::deserialize_message(BytesMut::from(g.bytes()));
    assert!(r.is_err(), "length prefix that differs from the frame length accepted");
    std::mem::forget(r);
}

/// ... one trailing byte (prefix adjusted) ...
pub(crate) fn check_trailing<M>(f: &Frame, _msg: M)
where
    M: MessageOps + Clone + PartialEq + Into<Message>,
{
    std::mem::forget(_msg);
    let mut t = Frame { buf: f.buf, len: f.len };
    t.byte(kani::any());
    t.finish();
    let r = M::deserialize_message(BytesMut::from(t.bytes()));
    assert!(r.is_err(), "trailing data accepted");
    std::mem::forget(r);
}

/// ... the last byte missing (prefix adjusted) ...
pub(crate) fn check_truncated<M>(f: &Frame, _msg: M)
where
    M: MessageOps + Clone + PartialEq + Into<Message>,
{
    std::mem::forget(_msg);
    if f.len > 5 {
        let mut s = Frame { buf: f.buf, len: f.len - 1 };
        s.finish();
        let r = M::deserialize_message(BytesMut::from(s.bytes()));
        assert!(r.is_err(), "truncated frame accepted");
        std::mem::forget(r);
    }
}

/// ... and the frame of another kind.
pub(crate) fn check_other_kind<M>(f: &Frame, _msg: M)
where
    M: MessageOps + Clone + PartialEq + Into<Message>,
{
    std::mem::forget(_msg);
    let mut k = Frame { buf: f.buf, len: f.len };
    k.buf[4] = if f.buf[4] == 30 { 31 } else { 30 };
    let r = M::deserialize_message(BytesMut::from(k.bytes()));
    assert!(r.is_err(), "frame of a different kind accepted");
    std::mem::forget(r);
}

/// A frame whose value-length field is 0 (and that is otherwise consistent: the value bytes are
/// removed, the length prefix is adjusted) is not well-formed - every value has at least its kind
/// byte - and must be rejected, without panicking. `vlen` = length of the frame's value.
pub(crate) fn check_empty_value<M>(f: &Frame, vlen: usize, _msg: M)
where
    M: MessageOps + Clone + PartialEq + Into<Message>,
{
    std::mem::forget(_msg);
    assert!(f.buf[5] as usize == vlen && f.len >= 9 + vlen);
    let mut g = Frame { buf: f.buf, len: 9 };
    g.buf[5] = 0;
    let mut i = 9 + vlen;
    while i < f.len {
        g.byte(f.buf[i]);
        i += 1;
    }
    g.finish();
    let r = M::deserialize_message(BytesMut::from(g.bytes()));
    assert!(r.is_err(), "a frame with an empty value was accepted");
    std::mem::forget(r);
}
