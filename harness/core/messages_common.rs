//! C08 / C14: helpers of the message codec harnesses (no harnesses in here).
//!
//! A frame is built as a byte array with literal framing - the 4-byte length prefix, the kind
//! byte, the value length, enum discriminants and the first byte of every varint are literals,
//! ids / serials / payload bytes are symbolic - so that all positions are concrete for CBMC, and
//! handed to the real parsers as `BytesMut::from(&frame[..])`. (Parsing the `BytesMut` that the
//! real serializer produced does not finish: its length is symbolic through the canonical varint
//! encoding.) The real serializer's output is compared byte for byte with the same frame.
pub(crate) use crate::message::*;
pub(crate) use crate::{
    BusEvent, BusListenerCookie, BusListenerFilter, BusListenerScope, ChannelEnd, ChannelEndWithCapacity, TypeId,
};
use super::*;
use bytes::BytesMut;

pub(crate) const FRAME_CAP: usize = 112;

pub(crate) struct Frame {
    pub buf: [u8; FRAME_CAP],
    pub len: usize,
}

impl Frame {
    /// `[len: 4][kind]`
    pub(crate) fn without_value(kind: u8) -> Self {
        let mut buf = [0u8; FRAME_CAP];
        buf[4] = kind;
        Self { buf, len: 5 }
    }

    /// `[len: 4][kind][value length: 4][value ..]`
    pub(crate) fn with_value(kind: u8, value: &[u8]) -> Self {
        let mut f = Self::without_value(kind);
        f.buf[5] = value.len() as u8;
        f.len = 9;
        let mut i = 0;
        while i < value.len() {
            f.byte(value[i]);
            i += 1;
        }
        f
    }

    pub(crate) fn byte(&mut self, b: u8) {
        self.buf[self.len] = b;
        self.len += 1;
    }

    /// u32 in the full-width varint form `[255, b0, b1, b2, b3]` (canonical iff `b3 != 0`)
    pub(crate) fn v32_wide(&mut self, b: [u8; 4]) {
        self.byte(255);
        self.byte(b[0]);
        self.byte(b[1]);
        self.byte(b[2]);
        self.byte(b[3]);
    }

    pub(crate) fn uuid(&mut self, u: [u8; 16]) {
        let mut i = 0;
        while i < 16 {
            self.byte(u[i]);
            i += 1;
        }
    }

    /// writes the length prefix
    pub(crate) fn finish(&mut self) {
        self.buf[0] = self.len as u8;
    }

    pub(crate) fn bytes(&self) -> &[u8] {
        &self.buf[..self.len]
    }
}

pub(crate) fn same_bytes(out: &[u8], reference: &[u8]) -> bool {
    if out.len() != reference.len() {
        return false;
    }
    let mut i = 0;
    while i < reference.len() {
        if out[i] != reference[i] {
            return false;
        }
        i += 1;
    }
    true
}

/// Parsing the frame yields the expected message - through the message's own parser and through
/// the kind dispatch of `Message::deserialize_message`.
pub(crate) fn check_decode<M>(f: &Frame, expect: M)
where
    M: MessageOps + Clone + PartialEq + Into<Message>,
{
    let r = M::deserialize_message(BytesMut::from(f.bytes()));
    match &r {
        Ok(m) => assert!(*m == expect, "parsed message differs from the frame's content"),
        Err(_) => panic!("well-formed frame rejected"),
    }
    std::mem::forget(r);
    let r = Message::deserialize_message(BytesMut::from(f.bytes()));
    let want: Message = expect.into();
    match &r {
        Ok(m) => assert!(*m == want, "kind dispatch parsed a different message"),
        Err(_) => panic!("well-formed frame rejected by Message::deserialize_message"),
    }
    std::mem::forget(r);
    std::mem::forget(want);
}

/// The real serializer writes exactly the frame: length prefix = frame length, kind, layout.
pub(crate) fn check_serialize<M>(f: &Frame, msg: M)
where
    M: MessageOps + Clone + PartialEq + Into<Message>,
{
    assert!(u32::from_le_bytes([f.buf[0], f.buf[1], f.buf[2], f.buf[3]]) as usize == f.len);
    let out = match msg.clone().serialize_message() {
        Ok(o) => o,
        Err(_) => panic!("serialization failed"),
    };
    assert!(same_bytes(&out, f.bytes()), "serialized frame differs from the wire layout");
    let m: Message = msg.into();
    let out2 = match m.serialize_message() {
        Ok(o) => o,
        Err(_) => panic!("serialization through Message failed"),
    };
    assert!(same_bytes(&out2, f.bytes()), "Message::serialize_message writes a different frame");
}

/// Strictness: a wrong length prefix, a trailing byte and a truncated frame are all rejected, by
/// the message's own parser and without panicking.
pub(crate) fn check_strict<M>(f: &Frame, _msg: M)
where
    M: MessageOps + Clone + PartialEq + Into<Message>,
{
    std::mem::forget(_msg);
    // length prefix one too large / one too small
    let mut g = Frame { buf: f.buf, len: f.len };
    g.buf[0] = (f.len + 1) as u8;
    assert!(M::deserialize_message(BytesMut::from(g.bytes())).is_err(), "length prefix beyond the frame accepted");
    g.buf[0] = (f.len - 1) as u8;
    assert!(M::deserialize_message(BytesMut::from(g.bytes())).is_err(), "length prefix short of the frame accepted");
    // one trailing byte, prefix adjusted
    let mut t = Frame { buf: f.buf, len: f.len };
    t.byte(kani::any());
    t.finish();
    let r = M::deserialize_message(BytesMut::from(t.bytes()));
    assert!(r.is_err(), "trailing data accepted");
    std::mem::forget(r);
    // last byte missing, prefix adjusted
    if f.len > 5 {
        let mut s = Frame { buf: f.buf, len: f.len - 1 };
        s.finish();
        let r = M::deserialize_message(BytesMut::from(s.bytes()));
        assert!(r.is_err(), "truncated frame accepted");
        std::mem::forget(r);
    }
    // another kind's parser refuses the frame
    let mut k = Frame { buf: f.buf, len: f.len };
    k.buf[4] = if f.buf[4] == 30 { 31 } else { 30 };
    let r = M::deserialize_message(BytesMut::from(k.bytes()));
    assert!(r.is_err(), "frame of a different kind accepted");
    std::mem::forget(r);
}
