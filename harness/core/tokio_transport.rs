//! C14 (transport part 2): `tokio::TokioTransport<T>` (Packetizer + write buffer) on top of an
//! arbitrary byte-stream I/O object. The I/O object is the environment: `poll_read` / `poll_write`
//! transfer the scripted number of bytes or - a fresh nondeterministic choice on every call - return
//! Pending; `poll_flush` answers Pending or Ready nondeterministically. The real poll functions of
//! the transport are driven directly with a no-op waker. Chunk sizes are concrete per harness (a
//! symbolic size makes every later buffer position symbolic, DESIGN 8.1), frame contents and the
//! schedule of Pending results are symbolic.
use super::*;
use crate::message::{Message, MessageDeserializeError, MessageOps, ServiceDestroyed, Shutdown, Sync as SyncMsg};
use bytes::BytesMut;
use crate::tokio::{TokioTransport, TokioTransportError};
use crate::transport::AsyncTransport;
use std::io::{Error as IoError, ErrorKind};
use std::pin::Pin;
use std::task::{Context, Poll, Waker};
use tokio::io::{AsyncRead, AsyncWrite, ReadBuf};

const N: usize = 32;
const LEN_A: usize = 21;
const LEN: usize = 26;

/// bytes the peer sends (read side) and bytes written so far (write side)
static mut IN: [u8; N] = [0; N];
static mut IN_LEN: usize = 0;
static mut IN_POS: usize = 0;
static mut OUT: [u8; N] = [0; N];
static mut OUT_LEN: usize = 0;
/// scripted transfer sizes per successful read / write call (0 = end of stream / write of zero bytes)
static mut SIZES: [usize; 8] = [usize::MAX; 8];
static mut CALL: usize = 0;
/// how many more times the I/O object may answer Pending
static mut PENDS: u8 = 0;
static mut IO_PENDING: bool = false;
/// the I/O object's flush completed after the last write
static mut FLUSHED: bool = true;

struct Io;

fn next_size() -> usize {
    unsafe {
        let s = match CALL {
            0 => SIZES[0],
            1 => SIZES[1],
            2 => SIZES[2],
            3 => SIZES[3],
            4 => SIZES[4],
            5 => SIZES[5],
            6 => SIZES[6],
            _ => SIZES[7],
        };
        CALL += 1;
        s
    }
}

fn maybe_pending() -> bool {
    unsafe {
        IO_PENDING = false;
        if PENDS > 0 && kani::any() {
            PENDS -= 1;
            IO_PENDING = true;
            return true;
        }
        false
    }
}

impl AsyncRead for Io {
    fn poll_read(self: Pin<&mut Self>, _cx: &mut Context<'_>, buf: &mut ReadBuf<'_>) -> Poll<std::io::Result<()>> {
        if maybe_pending() {
            return Poll::Pending;
        }
        unsafe {
            let want = next_size();
            let avail = IN_LEN - IN_POS;
            let room = buf.remaining();
            assert!(room > 0, "the transport always offers room to read into");
            let mut n = if want < avail { want } else { avail };
            if n > room {
                n = room;
            }
            let mut i = 0;
            while i < n {
                buf.put_slice(&[IN[IN_POS + i]]);
                i += 1;
            }
            IN_POS += n;
            Poll::Ready(Ok(()))
        }
    }
}

impl AsyncWrite for Io {
    fn poll_write(self: Pin<&mut Self>, _cx: &mut Context<'_>, buf: &[u8]) -> Poll<std::io::Result<usize>> {
        if maybe_pending() {
            return Poll::Pending;
        }
        unsafe {
            assert!(!buf.is_empty(), "the transport never issues an empty write");
            let want = next_size();
            let n = if want < buf.len() { want } else { buf.len() };
            let mut i = 0;
            while i < n {
                assert!(OUT_LEN < N);
                OUT[OUT_LEN] = buf[i];
                OUT_LEN += 1;
                i += 1;
            }
            if n > 0 {
                FLUSHED = false;
            }
            Poll::Ready(Ok(n))
        }
    }

    fn poll_flush(self: Pin<&mut Self>, _cx: &mut Context<'_>) -> Poll<std::io::Result<()>> {
        if maybe_pending() {
            return Poll::Pending;
        }
        unsafe { FLUSHED = true };
        Poll::Ready(Ok(()))
    }

    fn poll_shutdown(self: Pin<&mut Self>, _cx: &mut Context<'_>) -> Poll<std::io::Result<()>> {
        Poll::Ready(Ok(()))
    }
}

fn set_sizes(s: &[usize]) {
    let mut i = 0;
    while i < s.len() {
        unsafe { SIZES[i] = s[i] };
        i += 1;
    }
}

/// send side: the frame of ServiceDestroyed{cookie c} (21 bytes, kind 32), then Shutdown (5 bytes, kind 2)
fn stream(c: &[u8; 16]) -> [u8; N] {
    let mut s = [0u8; N];
    s[0] = 21;
    s[4] = 32;
    let mut i = 0;
    while i < 16 {
        s[5 + i] = c[i];
        i += 1;
    }
    s[21] = 5;
    s[25] = 2;
    s
}

/// receive side: two 5-byte frames whose kind bytes are symbolic (the parser is replaced, see below;
/// `spare_capacity_mut` reserves 64 KiB, beyond CBMC's field-sensitivity limit buffer contents stop
/// being constants for symbolic execution, so the stream is kept as short as the packetizer
/// harnesses' one)
const RLEN: usize = 10;
const RLEN_A: usize = 5;
fn rstream(x: u8, y: u8) -> [u8; N] {
    let mut s = [0u8; N];
    s[0] = 5;
    s[4] = x;
    s[5] = 5;
    s[9] = y;
    s
}

/// Frames handed to the message parser, in order (replaces `Message::deserialize_message`, which
/// is the subject of C08: parsing a `BytesMut` that was split off a larger buffer does not finish
/// under CBMC, DESIGN 8.1; the transport must hand over exactly the frame, that is checked here).
static mut FRAMES: [[u8; N]; 2] = [[0; N]; 2];
static mut FRAME_LEN: [usize; 2] = [0; 2];
static mut N_FRAMES: usize = 0;

fn record_frame(buf: BytesMut) -> Result<Message, MessageDeserializeError> {
    unsafe {
        assert!(N_FRAMES < 2, "more frames than were sent");
        let b: &[u8] = &buf;
        assert!(b.len() <= N);
        let k = N_FRAMES;
        let mut i = 0;
        while i < N {
            if i < b.len() {
                if k == 0 {
                    FRAMES[0][i] = b[i];
                } else {
                    FRAMES[1][i] = b[i];
                }
            }
            i += 1;
        }
        if k == 0 {
            FRAME_LEN[0] = b.len();
        } else {
            FRAME_LEN[1] = b.len();
        }
        N_FRAMES += 1;
        std::mem::forget(buf);
        Ok(Message::Shutdown(Shutdown))
    }
}

/// The peer sends the two frames, cut into the scripted read sizes; `pends` Pending answers may be
/// interleaved anywhere. Every receive poll either hands the next complete frame of the stream to
/// the parser (in order, exactly once, bytes unchanged, not before its last byte has arrived), or
/// returns Pending exactly when the I/O object was the one that returned Pending, or reports the
/// end of the stream as an error.
fn receive_lemma(sizes: &[usize], pends: u8, polls: usize, eof_after: bool) {
    let s = rstream(kani::any(), kani::any());
    unsafe {
        IN = s;
        let mut total = 0;
        let mut k = 0;
        while k < sizes.len() {
            total += sizes[k];
            k += 1;
        }
        IN_LEN = if total < RLEN { total } else { RLEN };
        PENDS = pends;
    }
    set_sizes(sizes);
    let mut t = std::mem::ManuallyDrop::new(TokioTransport::new(Io));
    let mut t = Pin::new(&mut *t);
    let mut cx = Context::from_waker(Waker::noop());
    let mut got = 0;
    let mut p = 0;
    while p < polls {
        match t.as_mut().receive_poll(&mut cx) {
            Poll::Ready(Ok(m)) => {
                std::mem::forget(m);
                let pos = unsafe { IN_POS };
                got += 1;
                assert!(unsafe { N_FRAMES } == got, "one frame per delivered message");
                if got == 1 {
                    assert!(pos >= RLEN_A, "not delivered before it is complete");
                    assert!(unsafe { FRAME_LEN[0] } == RLEN_A);
                    let f = unsafe { FRAMES[0] };
                    assert!(f[0] == 5 && f[1] == 0 && f[2] == 0 && f[3] == 0 && f[4] == s[4], "first frame handed over unchanged");
                } else {
                    assert!(got == 2 && pos == RLEN);
                    assert!(unsafe { FRAME_LEN[1] } == RLEN - RLEN_A);
                    let f = unsafe { FRAMES[1] };
                    assert!(f[0] == 5 && f[1] == 0 && f[2] == 0 && f[3] == 0 && f[4] == s[9], "second frame handed over unchanged");
                    if !eof_after {
                        break;
                    }
                }
            }
            Poll::Ready(Err(e)) => {
                assert!(eof_after && unsafe { IN_POS == IN_LEN }, "errors only at the end of the stream");
                assert!(matches!(&e, TokioTransportError::Io(io) if io.kind() == ErrorKind::UnexpectedEof), "end of stream is reported as UnexpectedEof");
                std::mem::forget(e);
                let complete = if unsafe { IN_LEN } >= RLEN { 2 } else if unsafe { IN_LEN } >= RLEN_A { 1 } else { 0 };
                assert!(got == complete, "every complete frame was delivered before the end of stream was reported");
                return;
            }
            Poll::Pending => {
                assert!(unsafe { IO_PENDING }, "Pending only when the I/O object is pending");
            }
        }
        p += 1;
    }
    if !eof_after {
        assert!(polls >= 2 + pends as usize);
        assert!(got == 2, "every poll delivers a message unless the I/O object is pending");
    }
}

/// Polls the flush until it completes (or `polls` are used up), checking after every poll that
/// what has been written is a prefix of `expect[..total]` - bytes in order, unchanged, none twice -
/// that Ready(Ok) comes only when all `total` bytes are written and the I/O object has flushed
/// after the last write, and Pending only when the I/O object is pending. Returns None on error.
fn drive_flush(t: &mut Pin<&mut TokioTransport<Io>>, cx: &mut Context, expect: &[u8; N], total: usize, polls: usize, zero_write: bool) -> Option<bool> {
    let mut p = 0;
    while p < polls {
        let r = t.as_mut().send_poll_flush(cx);
        let n = unsafe { OUT_LEN };
        assert!(n <= total, "no byte is duplicated");
        let mut i = 0;
        while i < N {
            if i < n {
                assert!(unsafe { OUT[i] } == expect[i], "bytes are written in order, unchanged");
            }
            i += 1;
        }
        match r {
            Poll::Ready(Ok(())) => {
                assert!(n == total, "a flush returns only after all earlier messages were written");
                assert!(unsafe { FLUSHED }, "and the I/O object has flushed");
                return Some(true);
            }
            Poll::Ready(Err(e)) => {
                assert!(zero_write, "no error without a fault");
                assert!(matches!(&e, TokioTransportError::Io(io) if io.kind() == ErrorKind::WriteZero), "a write of zero bytes is reported as WriteZero");
                std::mem::forget(e);
                return None;
            }
            Poll::Pending => assert!(unsafe { IO_PENDING }, "Pending only when the I/O object is pending"),
        }
        p += 1;
    }
    Some(false)
}

/// ServiceDestroyed{cookie c} is sent and flushed under the scripted short writes and up to
/// `pends` Pending answers; with `second`, Shutdown is sent after that flush completed and flushed
/// as well. (Two messages in the write buffer at once make `BytesMut` reallocate, which CBMC's SAT
/// back end does not survive - DESIGN 8.1 - so that case is outside the bound.)
fn send_lemma(sizes: &[usize], pends: u8, polls: usize, zero_write: bool, second: bool) {
    let c: [u8; 16] = kani::any();
    let expect = stream(&c);
    unsafe { PENDS = pends };
    set_sizes(sizes);
    let mut t = std::mem::ManuallyDrop::new(TokioTransport::new(Io));
    let mut t = Pin::new(&mut *t);
    let mut cx = Context::from_waker(Waker::noop());
    assert!(matches!(t.as_mut().send_poll_ready(&mut cx), Poll::Ready(Ok(()))));
    let cookie = crate::ServiceCookie(Uuid::from_bytes(c));
    assert!(t.as_mut().send_start(Message::ServiceDestroyed(ServiceDestroyed { service_cookie: cookie })).is_ok());
    assert!(unsafe { OUT_LEN } == 0, "nothing is written before a flush below the back-pressure boundary");
    let r = drive_flush(&mut t, &mut cx, &expect, LEN_A, polls, zero_write);
    if !zero_write {
        assert!(polls >= 1 + pends as usize);
        assert!(r == Some(true), "the flush completes unless the I/O object is pending");
    }
    if second && r == Some(true) {
        assert!(matches!(t.as_mut().send_poll_ready(&mut cx), Poll::Ready(Ok(()))));
        assert!(t.as_mut().send_start(Message::Shutdown(Shutdown)).is_ok());
        assert!(unsafe { OUT_LEN } == LEN_A);
        unsafe { PENDS = 1 };
        let r2 = drive_flush(&mut t, &mut cx, &expect, LEN, 2, false);
        assert!(r2 == Some(true));
    }
}

macro_rules! inst {
    ($($name:ident = $f:ident($($arg:expr),*);)*) => {$(
        #[kani::proof]
        #[kani::unwind(34)]
        #[kani::stub(<crate::message::Message as crate::message::MessageOps>::deserialize_message, record_frame)]
        fn $name() {
            $f($($arg),*);
        }
    )*};
}

inst! {
    q_c14_tokio_receive_whole_stream_at_once = receive_lemma(&[10], 1, 3, false);
    q_c14_tokio_receive_split_inside_header = receive_lemma(&[2, 8], 1, 3, false);
    q_c14_tokio_receive_split_between_frames = receive_lemma(&[5, 5], 2, 4, false);
    q_c14_tokio_receive_second_header_split = receive_lemma(&[7, 3], 1, 3, false);
    q_c14_tokio_receive_eof_mid_frame = receive_lemma(&[7, 0], 1, 3, true);
    q_c14_tokio_receive_eof_at_boundary = receive_lemma(&[10, 0], 0, 3, true);
    t_c14_tokio_receive_three_pieces = receive_lemma(&[3, 4, 3], 2, 4, false);
    q_c14_tokio_send_one_write = send_lemma(&[21], 2, 3, false, false);
    q_c14_tokio_send_short_writes = send_lemma(&[1, 16, 4], 2, 3, false, false);
    q_c14_tokio_send_write_zero = send_lemma(&[4, 0], 1, 3, true, false);
    q_c14_tokio_send_two_messages_flushed_separately = send_lemma(&[21, 5], 0, 1, false, true);
    t_c14_tokio_send_many_short_writes = send_lemma(&[5, 5, 5, 5, 1], 2, 3, false, false);
}

#[cfg(verif_replay)]
include!("/verif/.cache/replay/verif__tokio_transport.rs");

