//! C12-a: version selection of the handshake (`select_protocol_version`), all u32 x u32 x bool.
#![cfg(any(verif_unit = "all", verif_unit = "acceptor", verif_unit = "acceptor_t"))]
#![allow(dead_code, unused_imports, missing_debug_implementations, missing_docs, unreachable_pub, unnameable_types)]
use super::select_protocol_version;
use aldrin_core::ProtocolVersion;

#[kani::proof]
fn q_c12_select_protocol_version() {
    let major: u32 = kani::any();
    let minor: u32 = kani::any();
    let connect2: bool = kani::any();
    let got = select_protocol_version(ProtocolVersion::new(major, minor), connect2);
    let accept = major == 1 && if connect2 { minor >= 14 } else { minor == 14 };
    assert!(got.is_some() == accept, "handshake accepts exactly 1.14 (legacy) / 1.x, x >= 14 (connect2)");
    if let Some(v) = got {
        assert!(v.major() == 1);
        assert!(v.minor() == if minor < 20 { minor } else { 20 }, "negotiated = min(client, 1.20)");
        assert!(v.minor() >= 14 && v.minor() <= 20);
        if !connect2 {
            assert!(v == ProtocolVersion::V1_14);
        }
    }
    kani::cover!(got.is_some() && connect2 && minor > 20);
    kani::cover!(got.is_some() && !connect2);
    kani::cover!(got.is_none() && major == 1);
}

#[cfg(any(verif_unit = "all", verif_unit = "acceptor_t"))]
#[kani::proof]
#[kani::should_panic]
fn t_c12_select_protocol_version_twin() {
    let minor: u32 = kani::any();
    let got = select_protocol_version(ProtocolVersion::new(1, minor), true);
    if let Some(v) = got {
        if v.minor() == 20 && minor > 1000 {
            panic!("vacuity witness: reachable");
        }
    }
}

#[cfg(verif_replay)]
include!("/verif/.cache/replay/acceptor__verif.rs");
