//! Array-backed model of the subset of `std::collections::{HashMap, HashSet, hash_map::Entry}`
//! that the broker uses. Compiled only under `cfg(kani)`: `std`'s hash collections (SipHash +
//! hashbrown SIMD groups) cannot be executed symbolically (DESIGN.md section 1).
//!
//! Semantics: a finite map / set with `Eq` keys, at most `CAP` entries. Inserting a new key into a
//! full collection is outside the bound: the path is cut with `kani::assume(false)` (and the
//! harnesses carry cover witnesses so that a harness whose interesting paths are all cut is
//! reported as vacuous). Iteration order is slot order; a symbolic pre-state places entries in
//! arbitrary slots, so every iteration order is explored.
#![allow(missing_debug_implementations, missing_docs, unnameable_types, unreachable_pub, dead_code)]

use std::borrow::Borrow;

#[cfg(not(verif_cap = "2"))]
pub const CAP: usize = 3;
#[cfg(verif_cap = "2")]
pub const CAP: usize = 2;


/// Element access by case split instead of `slots[i]` with a possibly symbolic `i`: CBMC mis-reads
/// niche-encoded `Option`s through a symbolic array offset (observed: an invalid discriminant in
/// `Option::is_some` after `entry().get_mut()`), and concrete element pointers are much cheaper.
pub fn at<T>(slots: &[T; CAP], i: usize) -> &T {
    match i {
        0 => &slots[0],
        1 => &slots[1],
        _ => &slots[CAP - 1],
    }
}

pub fn at_mut<T>(slots: &mut [T; CAP], i: usize) -> &mut T {
    match i {
        0 => &mut slots[0],
        1 => &mut slots[1],
        _ => &mut slots[CAP - 1],
    }
}

pub mod hash_map {
    pub use super::{Entry, HashMap, OccupiedEntry, VacantEntry};
}

#[derive(Debug, Clone)]
pub struct HashMap<K, V> {
    pub(crate) slots: [Option<(K, V)>; CAP],
}

impl<K, V> Default for HashMap<K, V> {
    fn default() -> Self {
        Self::new()
    }
}

impl<K, V> HashMap<K, V> {
    pub fn new() -> Self {
        Self {
            slots: [const { None }; CAP],
        }
    }

    pub fn with_capacity(_n: usize) -> Self {
        Self::new()
    }

    pub fn len(&self) -> usize {
        let mut n = 0;
        let mut i = 0;
        while i < CAP {
            if self.slots[i].is_some() {
                n += 1;
            }
            i += 1;
        }
        n
    }

    pub fn is_empty(&self) -> bool {
        self.len() == 0
    }

    pub fn clear(&mut self) {
        let mut i = 0;
        while i < CAP {
            self.slots[i] = None;
            i += 1;
        }
    }

    pub fn iter(&self) -> Iter<'_, K, V> {
        Iter { map: self, pos: 0 }
    }

    pub fn keys(&self) -> Keys<'_, K, V> {
        Keys { inner: self.iter() }
    }

    pub fn values(&self) -> Values<'_, K, V> {
        Values { inner: self.iter() }
    }
}

impl<K: Eq, V> HashMap<K, V> {
    fn find<Q>(&self, k: &Q) -> Option<usize>
    where
        K: Borrow<Q>,
        Q: Eq + ?Sized,
    {
        let mut i = 0;
        while i < CAP {
            if let Some((key, _)) = &self.slots[i] {
                if key.borrow() == k {
                    return Some(i);
                }
            }
            i += 1;
        }
        None
    }

    fn free_slot(&self) -> usize {
        let mut i = 0;
        while i < CAP {
            if self.slots[i].is_none() {
                return i;
            }
            i += 1;
        }
        // more than CAP entries: outside the bound of the model
        kani::assume(false);
        0
    }

    pub fn get<Q>(&self, k: &Q) -> Option<&V>
    where
        K: Borrow<Q>,
        Q: Eq + ?Sized,
    {
        match self.find(k) {
            Some(i) => at(&self.slots, i).as_ref().map(|(_, v)| v),
            None => None,
        }
    }

    pub fn get_mut<Q>(&mut self, k: &Q) -> Option<&mut V>
    where
        K: Borrow<Q>,
        Q: Eq + ?Sized,
    {
        match self.find(k) {
            Some(i) => at_mut(&mut self.slots, i).as_mut().map(|(_, v)| v),
            None => None,
        }
    }

    pub fn contains_key<Q>(&self, k: &Q) -> bool
    where
        K: Borrow<Q>,
        Q: Eq + ?Sized,
    {
        self.find(k).is_some()
    }

    pub fn insert(&mut self, k: K, v: V) -> Option<V> {
        match self.find(&k) {
            Some(i) => {
                let slot = at_mut(&mut self.slots, i);
                let old = slot.take();
                *slot = Some((k, v));
                old.map(|(_, v)| v)
            }
            None => {
                let i = self.free_slot();
                *at_mut(&mut self.slots, i) = Some((k, v));
                None
            }
        }
    }

    pub fn remove<Q>(&mut self, k: &Q) -> Option<V>
    where
        K: Borrow<Q>,
        Q: Eq + ?Sized,
    {
        match self.find(k) {
            Some(i) => at_mut(&mut self.slots, i).take().map(|(_, v)| v),
            None => None,
        }
    }

    pub fn entry(&mut self, k: K) -> Entry<'_, K, V> {
        match self.find(&k) {
            Some(i) => Entry::Occupied(OccupiedEntry { map: self, idx: i }),
            None => Entry::Vacant(VacantEntry { map: self, key: k }),
        }
    }
}

pub enum Entry<'a, K, V> {
    Occupied(OccupiedEntry<'a, K, V>),
    Vacant(VacantEntry<'a, K, V>),
}

impl<'a, K: Eq, V> Entry<'a, K, V> {
    pub fn or_default(self) -> &'a mut V
    where
        V: Default,
    {
        match self {
            Entry::Occupied(e) => e.into_mut(),
            Entry::Vacant(e) => e.insert(V::default()),
        }
    }
}

pub struct OccupiedEntry<'a, K, V> {
    map: &'a mut HashMap<K, V>,
    idx: usize,
}

impl<'a, K, V> OccupiedEntry<'a, K, V> {
    pub fn key(&self) -> &K {
        &at(&self.map.slots, self.idx).as_ref().unwrap().0
    }

    pub fn get(&self) -> &V {
        &at(&self.map.slots, self.idx).as_ref().unwrap().1
    }

    pub fn get_mut(&mut self) -> &mut V {
        &mut at_mut(&mut self.map.slots, self.idx).as_mut().unwrap().1
    }

    pub fn into_mut(self) -> &'a mut V {
        &mut at_mut(&mut self.map.slots, self.idx).as_mut().unwrap().1
    }

    pub fn insert(&mut self, v: V) -> V {
        std::mem::replace(self.get_mut(), v)
    }

    pub fn remove(self) -> V {
        at_mut(&mut self.map.slots, self.idx).take().unwrap().1
    }
}

pub struct VacantEntry<'a, K, V> {
    map: &'a mut HashMap<K, V>,
    key: K,
}

impl<'a, K: Eq, V> VacantEntry<'a, K, V> {
    pub fn key(&self) -> &K {
        &self.key
    }

    pub fn insert(self, v: V) -> &'a mut V {
        let i = self.map.free_slot();
        let slot = at_mut(&mut self.map.slots, i);
        *slot = Some((self.key, v));
        &mut slot.as_mut().unwrap().1
    }
}

pub struct Iter<'a, K, V> {
    map: &'a HashMap<K, V>,
    pos: usize,
}

impl<'a, K, V> Iterator for Iter<'a, K, V> {
    type Item = (&'a K, &'a V);

    /// Loop-free (one case per slot, in slot order): the position is symbolic as soon as two paths
    /// with different positions merge, a `while self.pos < CAP` loop is then unrolled to the global
    /// unwind bound inside every iteration of the caller's `for` loop (measured: every lemma that
    /// reaches `remove_service` ran out of memory).
    fn next(&mut self) -> Option<Self::Item> {
        if self.pos == 0 {
            self.pos = 1;
            if let Some((k, v)) = &self.map.slots[0] {
                return Some((k, v));
            }
        }
        if self.pos == 1 {
            self.pos = 2;
            if let Some((k, v)) = &self.map.slots[1] {
                return Some((k, v));
            }
        }
        #[cfg(not(verif_cap = "2"))]
        if self.pos == 2 {
            self.pos = 3;
            if let Some((k, v)) = &self.map.slots[2] {
                return Some((k, v));
            }
        }
        None
    }
}

impl<'a, K, V> IntoIterator for &'a HashMap<K, V> {
    type Item = (&'a K, &'a V);
    type IntoIter = Iter<'a, K, V>;

    fn into_iter(self) -> Iter<'a, K, V> {
        self.iter()
    }
}

pub struct Keys<'a, K, V> {
    inner: Iter<'a, K, V>,
}

impl<'a, K, V> Iterator for Keys<'a, K, V> {
    type Item = &'a K;

    fn next(&mut self) -> Option<&'a K> {
        self.inner.next().map(|(k, _)| k)
    }
}

pub struct Values<'a, K, V> {
    inner: Iter<'a, K, V>,
}

impl<'a, K, V> Iterator for Values<'a, K, V> {
    type Item = &'a V;

    fn next(&mut self) -> Option<&'a V> {
        self.inner.next().map(|(_, v)| v)
    }
}

// -------------------------------------------------------------------------------------------------

#[derive(Debug, Clone)]
pub struct HashSet<T> {
    pub(crate) slots: [Option<T>; CAP],
}

impl<T> Default for HashSet<T> {
    fn default() -> Self {
        Self::new()
    }
}

impl<T> HashSet<T> {
    pub fn new() -> Self {
        Self {
            slots: [const { None }; CAP],
        }
    }

    pub fn with_capacity(_n: usize) -> Self {
        Self::new()
    }

    pub fn len(&self) -> usize {
        let mut n = 0;
        let mut i = 0;
        while i < CAP {
            if self.slots[i].is_some() {
                n += 1;
            }
            i += 1;
        }
        n
    }

    pub fn is_empty(&self) -> bool {
        self.len() == 0
    }

    pub fn clear(&mut self) {
        let mut i = 0;
        while i < CAP {
            self.slots[i] = None;
            i += 1;
        }
    }

    pub fn iter(&self) -> SetIter<'_, T> {
        SetIter { set: self, pos: 0 }
    }
}

impl<T: Eq> HashSet<T> {
    fn find<Q>(&self, k: &Q) -> Option<usize>
    where
        T: Borrow<Q>,
        Q: Eq + ?Sized,
    {
        let mut i = 0;
        while i < CAP {
            if let Some(key) = &self.slots[i] {
                if key.borrow() == k {
                    return Some(i);
                }
            }
            i += 1;
        }
        None
    }

    pub fn contains<Q>(&self, k: &Q) -> bool
    where
        T: Borrow<Q>,
        Q: Eq + ?Sized,
    {
        self.find(k).is_some()
    }

    pub fn insert(&mut self, v: T) -> bool {
        if self.find(&v).is_some() {
            return false;
        }
        let mut i = 0;
        while i < CAP {
            if self.slots[i].is_none() {
                self.slots[i] = Some(v);
                return true;
            }
            i += 1;
        }
        kani::assume(false);
        true
    }

    pub fn remove<Q>(&mut self, k: &Q) -> bool
    where
        T: Borrow<Q>,
        Q: Eq + ?Sized,
    {
        match self.find(k) {
            Some(i) => {
                *at_mut(&mut self.slots, i) = None;
                true
            }
            None => false,
        }
    }
}

impl<T: Eq> Extend<T> for HashSet<T> {
    fn extend<I: IntoIterator<Item = T>>(&mut self, iter: I) {
        for v in iter {
            self.insert(v);
        }
    }
}

pub struct SetIter<'a, T> {
    set: &'a HashSet<T>,
    pos: usize,
}

impl<'a, T> Iterator for SetIter<'a, T> {
    type Item = &'a T;

    fn next(&mut self) -> Option<&'a T> {
        if self.pos == 0 {
            self.pos = 1;
            if let Some(v) = &self.set.slots[0] {
                return Some(v);
            }
        }
        if self.pos == 1 {
            self.pos = 2;
            if let Some(v) = &self.set.slots[1] {
                return Some(v);
            }
        }
        #[cfg(not(verif_cap = "2"))]
        if self.pos == 2 {
            self.pos = 3;
            if let Some(v) = &self.set.slots[2] {
                return Some(v);
            }
        }
        None
    }
}

impl<'a, T> IntoIterator for &'a HashSet<T> {
    type Item = &'a T;
    type IntoIter = SetIter<'a, T>;

    fn into_iter(self) -> SetIter<'a, T> {
        self.iter()
    }
}

pub struct SetIntoIter<T> {
    slots: [Option<T>; CAP],
    pos: usize,
}

impl<T> Iterator for SetIntoIter<T> {
    type Item = T;

    fn next(&mut self) -> Option<T> {
        if self.pos == 0 {
            self.pos = 1;
            if let Some(v) = self.slots[0].take() {
                return Some(v);
            }
        }
        if self.pos == 1 {
            self.pos = 2;
            if let Some(v) = self.slots[1].take() {
                return Some(v);
            }
        }
        #[cfg(not(verif_cap = "2"))]
        if self.pos == 2 {
            self.pos = 3;
            if let Some(v) = self.slots[2].take() {
                return Some(v);
            }
        }
        None
    }
}

impl<T> IntoIterator for HashSet<T> {
    type Item = T;
    type IntoIter = SetIntoIter<T>;

    fn into_iter(self) -> SetIntoIter<T> {
        SetIntoIter {
            slots: self.slots,
            pos: 0,
        }
    }
}
