//! Kani harness root of aldrin-broker (hook at the end of broker/src/lib.rs, `cfg(kani)` only).
//! Units (one `cargo kani` build each, `--cfg verif_unit="<name>"`) live in the child modules that
//! the hooks in the individual source files pull in; this root only carries the shared environment.
#![allow(dead_code, unused_imports, missing_debug_implementations, missing_docs, unreachable_pub, unnameable_types)]

pub(crate) mod env;

