//! Kani harness root of aldrin-broker (hook at the end of broker/src/lib.rs, `cfg(kani)` only).
#![allow(dead_code, unused_imports, missing_debug_implementations, missing_docs, unreachable_pub, unnameable_types)]
