//! C02-a: `SerialMap::insert` hands out a serial that is not in use, child of serial_map.rs.
#![allow(dead_code, unused_imports, missing_debug_implementations, missing_docs, unreachable_pub, unnameable_types)]
use super::SerialMap;
use crate::verif_collections::{HashMap, CAP};

pub(crate) fn elems<T>(m: &SerialMap<T>) -> &HashMap<u32, T> {
    &m.elems
}
pub(crate) fn elems_mut<T>(m: &mut SerialMap<T>) -> &mut HashMap<u32, T> {
    &mut m.elems
}
pub(crate) fn set_next<T>(m: &mut SerialMap<T>, next: u32) {
    m.next = next;
}
pub(crate) fn next<T>(m: &SerialMap<T>) -> u32 {
    m.next
}

#[cfg(any(verif_unit = "all", verif_unit = "serial_map", verif_unit = "serial_map_t"))]
mod harnesses {
    use super::*;

    #[kani::proof]
    #[kani::unwind(6)]
    fn q_c02_serial_map_insert_fresh() {
        let mut m: SerialMap<u8> = SerialMap::new();
        m.next = kani::any();
        // up to two live entries with arbitrary distinct serials (a third slot stays free)
        let k1: u32 = kani::any();
        let k2: u32 = kani::any();
        kani::assume(k1 != k2);
        let have1: bool = kani::any();
        let have2: bool = kani::any();
        if have1 {
            m.elems.insert(k1, 1);
        }
        if have2 {
            m.elems.insert(k2, 2);
        }
        let next0 = m.next;
        let serial = m.insert(9);
        assert!(!(have1 && serial == k1) && !(have2 && serial == k2), "a serial in use is never handed out again");
        assert!(m.get_mut(serial).map(|v| *v) == Some(9));
        if have1 {
            assert!(m.get_mut(k1).map(|v| *v) == Some(1), "existing entries are untouched");
        }
        if have2 {
            assert!(m.get_mut(k2).map(|v| *v) == Some(2));
        }
        // the next insert differs again (also across the u32 wrap)
        kani::cover!(serial == u32::MAX);
        kani::cover!(have1 && have2 && serial != next0, "an occupied serial was skipped");
        assert!(m.remove(serial) == Some(9) && m.get_mut(serial).is_none());
    }

    #[cfg(verif_replay)]
    include!("/verif/.cache/replay/serial_map__verif__harnesses.rs");
}
