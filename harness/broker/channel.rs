//! C05-a: the channel end state machine and credit accounting of broker/src/broker/channel.rs,
//! one inductive step from an arbitrary state that satisfies the representation invariant.
#![allow(dead_code, unused_imports, missing_debug_implementations, missing_docs, unreachable_pub, unnameable_types)]
use super::{AddCapacityError, Channel, ChannelEndState, SendItemError, LOW_CAPACITY};
use crate::conn_id::ConnectionId;
use aldrin_core::message::{ClaimChannelEndResult, CloseChannelEndResult};
use aldrin_core::ChannelEnd;

pub(crate) fn any_conn() -> ConnectionId {
    let id: u8 = kani::any();
    kani::assume(id < 3);
    ConnectionId(id)
}

fn any_end_state() -> ChannelEndState {
    match kani::any::<u8>() % 3 {
        0 => ChannelEndState::Unclaimed,
        1 => ChannelEndState::Claimed {
            owner: any_conn(),
            capacity: kani::any(),
        },
        _ => ChannelEndState::Closed,
    }
}

pub(crate) fn any_end() -> ChannelEnd {
    if kani::any() {
        ChannelEnd::Sender
    } else {
        ChannelEnd::Receiver
    }
}

fn claimed(s: &ChannelEndState) -> Option<(ConnectionId, u32)> {
    match s {
        ChannelEndState::Claimed { owner, capacity } => Some((*owner, *capacity)),
        _ => None,
    }
}

pub(crate) fn sender_claimed(c: &Channel) -> Option<(ConnectionId, u32)> {
    claimed(&c.sender)
}

pub(crate) fn receiver_claimed(c: &Channel) -> Option<(ConnectionId, u32)> {
    claimed(&c.receiver)
}

pub(crate) fn sender_unclaimed(c: &Channel) -> bool {
    is_unclaimed(&c.sender)
}

pub(crate) fn receiver_unclaimed(c: &Channel) -> bool {
    is_unclaimed(&c.receiver)
}

fn is_unclaimed(s: &ChannelEndState) -> bool {
    matches!(s, ChannelEndState::Unclaimed)
}

fn is_closed(s: &ChannelEndState) -> bool {
    matches!(s, ChannelEndState::Closed)
}

/// Representation invariant of a channel that is stored in the broker's map.
///  * at least one end has been claimed at creation, so never both `Unclaimed`;
///  * never both `Closed` and never (Closed, Unclaimed): such channels are removed;
///  * both claimed: sender credit `s` <= receiver credit `r`, and `s <= LOW => s == r`
///    (whenever the sender runs low it is topped up to the receiver's level);
///  * sender claimed, receiver not yet: `s == 0`.
pub(crate) fn inv(c: &Channel) -> bool {
    let s = claimed(&c.sender);
    let r = claimed(&c.receiver);
    if s.is_none() && r.is_none() {
        return false;
    }
    if let (Some((_, s)), Some((_, r))) = (s, r) {
        if !(s <= r && (s > LOW_CAPACITY || s == r)) {
            return false;
        }
    }
    if let (Some((_, s)), None) = (s, r) {
        if is_unclaimed(&c.receiver) && s != 0 {
            return false;
        }
    }
    true
}

/// a concrete end shape: unclaimed, claimed by connection `tag`, closed
#[derive(Clone, Copy, PartialEq, Eq)]
pub(crate) enum EndSpec {
    U,
    C(u8),
    X,
}

fn mk_end(e: EndSpec) -> ChannelEndState {
    match e {
        EndSpec::U => ChannelEndState::Unclaimed,
        EndSpec::C(o) => ChannelEndState::Claimed {
            owner: ConnectionId(o),
            capacity: kani::any(),
        },
        EndSpec::X => ChannelEndState::Closed,
    }
}

/// channel with the given end shapes and arbitrary capacities that satisfy the invariant
pub(crate) fn mk_channel(s: EndSpec, r: EndSpec) -> Channel {
    let c = Channel {
        sender: mk_end(s),
        receiver: mk_end(r),
    };
    kani::assume(inv(&c));
    c
}

pub(crate) fn any_channel() -> Channel {
    let c = Channel {
        sender: any_end_state(),
        receiver: any_end_state(),
    };
    kani::assume(inv(&c));
    c
}

#[cfg(any(verif_unit = "all", verif_unit = "channel", verif_unit = "channel_t"))]
mod harnesses {
    use super::*;

    #[kani::proof]
    fn q_c05_c11_channel_base_cases() {
        let owner = any_conn();
        let c = Channel::with_claimed_sender(owner);
        assert!(inv(&c));
        assert!(claimed(&c.sender) == Some((owner, 0)) && is_unclaimed(&c.receiver));
        let cap: u32 = kani::any();
        let c = Channel::with_claimed_receiver(owner, cap);
        assert!(inv(&c));
        assert!(claimed(&c.receiver) == Some((owner, cap)) && is_unclaimed(&c.sender));
    }

    #[kani::proof]
    fn q_c05_c11_channel_send_item() {
        let mut c = any_channel();
        let s0 = claimed(&c.sender);
        let r0 = claimed(&c.receiver);
        let r0_unclaimed = is_unclaimed(&c.receiver);
        let who = any_conn();
        let res = match c.send_item(&who) {
            Ok((rcv, add)) => Ok((*rcv, add)),
            Err(e) => Err(e),
        };
        assert!(inv(&c), "send_item preserves the invariant");
        match res {
            Ok((rcv, add)) => {
                let (so, s) = s0.unwrap();
                let (ro, r) = r0.unwrap();
                assert!(so == who && rcv == ro, "item accepted only from the sender's owner, routed to the receiver's owner");
                assert!(s > 0, "never forwarded without sender credit");
                assert!(r > 0, "never forwarded beyond what the receiver granted");
                let (_, s1) = claimed(&c.sender).unwrap();
                let (_, r1) = claimed(&c.receiver).unwrap();
                assert!(r1 == r - 1, "receiver credit drops by exactly one per forwarded item");
                match add {
                    None => assert!(s1 == s - 1),
                    Some(d) => {
                        assert!(d > 0 && s - 1 <= LOW_CAPACITY);
                        assert!(s1 == s - 1 + d && s1 == r1, "top-up announces exactly the missing credit");
                    }
                }
                // the sender is never left at zero while the receiver still has credit
                assert!(!(s1 == 0 && r1 > 0));
            }
            Err(ref e) => {
                // nothing changed
                assert!(claimed(&c.sender) == s0 && claimed(&c.receiver) == r0);
                match e {
                    SendItemError::InvalidSender => assert!(s0.map(|(o, _)| o != who).unwrap_or(true)),
                    SendItemError::ReceiverUnclaimed => assert!(r0_unclaimed && s0.unwrap().0 == who),
                    SendItemError::ReceiverClosed => assert!(r0.is_none() && !r0_unclaimed),
                    SendItemError::CapacityExhausted => {
                        assert!(s0.unwrap().1 == 0 && r0.unwrap().1 == 0, "cut off only when the announced capacity is really used up");
                    }
                }
            }
        }
        kani::cover!(matches!(res, Ok((_, Some(_)))));
        kani::cover!(matches!(res, Ok((_, None))));
        kani::cover!(matches!(res, Err(SendItemError::CapacityExhausted)));
        kani::cover!(matches!(res, Err(SendItemError::ReceiverUnclaimed)));
        kani::cover!(matches!(res, Err(SendItemError::ReceiverClosed)));
        kani::cover!(matches!(res, Err(SendItemError::InvalidSender)));
    }

    #[kani::proof]
    fn q_c05_c11_channel_add_capacity() {
        let mut c = any_channel();
        let s0 = claimed(&c.sender);
        let r0 = claimed(&c.receiver);
        let who = any_conn();
        let cap: u32 = kani::any();
        let res = match c.add_capacity(&who, cap) {
            Ok(Some((snd, d))) => Ok(Some((*snd, d))),
            Ok(None) => Ok(None),
            Err(e) => Err(e),
        };
        assert!(inv(&c), "add_capacity preserves the invariant");
        let s1 = claimed(&c.sender);
        let r1 = claimed(&c.receiver);
        let owner_grant = cap > 0 && r0.map(|(o, _)| o == who).unwrap_or(false);
        match res {
            Err(AddCapacityError) => {
                assert!(owner_grant && r0.unwrap().1.checked_add(cap).is_none(), "error only on overflowing grants by the owner");
                assert!(s1 == s0 && r1 == r0, "an overflowing grant changes nothing");
            }
            Ok(out) => {
                if !owner_grant {
                    assert!(out.is_none() && s1 == s0 && r1 == r0, "grants of 0 or by a non-owner are ignored");
                } else {
                    let (ro, r) = r0.unwrap();
                    assert!(r1 == Some((ro, r + cap)));
                    match (s0, out) {
                        (None, o) => assert!(o.is_none() && s1.is_none()),
                        (Some((so, s)), None) => assert!(s > LOW_CAPACITY && s1 == Some((so, s))),
                        (Some((so, s)), Some((to, d))) => {
                            assert!(to == so && s <= LOW_CAPACITY && d > 0);
                            assert!(s1 == Some((so, s + d)) && s + d == r + cap);
                        }
                    }
                }
            }
        }
        kani::cover!(matches!(res, Err(_)));
        kani::cover!(matches!(res, Ok(Some(_))));
        kani::cover!(owner_grant && matches!(res, Ok(None)));
    }

    #[kani::proof]
    fn q_c05_c11_channel_claim() {
        let mut c = any_channel();
        let s0 = claimed(&c.sender);
        let r0 = claimed(&c.receiver);
        let s_unclaimed = is_unclaimed(&c.sender);
        let r_unclaimed = is_unclaimed(&c.receiver);
        let who = any_conn();
        if kani::any() {
            let res = match c.claim_sender(&who) {
                Ok((o, cap)) => Ok((*o, cap)),
                Err(e) => Err(e),
            };
            assert!(inv(&c));
            match res {
                Ok((peer, cap)) => {
                    assert!(s_unclaimed, "an end can be claimed only once");
                    assert!(r0 == Some((peer, cap)), "claimer learns the receiver's current capacity; peer = receiver owner");
                    assert!(claimed(&c.sender) == Some((who, cap)) && claimed(&c.receiver) == r0);
                }
                Err(ClaimChannelEndResult::AlreadyClaimed) => assert!(s0.is_some() && claimed(&c.sender) == s0),
                Err(ClaimChannelEndResult::InvalidChannel) => assert!(is_closed(&c.sender)),
                Err(_) => panic!("unexpected claim result"),
            }
            kani::cover!(res.is_ok());
        } else {
            let cap: u32 = kani::any();
            let res = match c.claim_receiver(&who, cap) {
                Ok(o) => Ok(*o),
                Err(e) => Err(e),
            };
            assert!(inv(&c));
            match res {
                Ok(peer) => {
                    assert!(r_unclaimed);
                    assert!(s0.map(|(o, _)| o) == Some(peer));
                    assert!(claimed(&c.receiver) == Some((who, cap)) && claimed(&c.sender) == Some((peer, cap)));
                }
                Err(ClaimChannelEndResult::AlreadyClaimed) => assert!(r0.is_some() && claimed(&c.receiver) == r0),
                Err(ClaimChannelEndResult::InvalidChannel) => assert!(is_closed(&c.receiver)),
                Err(_) => panic!("unexpected claim result"),
            }
            kani::cover!(res.is_ok());
        }
    }

    /// `check_close` + `close` as used by `Broker::close_channel_end` / `remove_channel_end`: close is
    /// entered only when `check_close` said Ok (request path), and the channel is removed from the
    /// map when `close` returns `None` (so the invariant is required only when it returns `Some`).
    #[kani::proof]
    fn q_c05_c11_channel_close() {
        let mut c = any_channel();
        let s0 = claimed(&c.sender);
        let r0 = claimed(&c.receiver);
        let who = any_conn();
        let end = any_end();
        let (this0, other0, this_unclaimed, this_closed) = match end {
            ChannelEnd::Sender => (s0, r0, is_unclaimed(&c.sender), is_closed(&c.sender)),
            ChannelEnd::Receiver => (r0, s0, is_unclaimed(&c.receiver), is_closed(&c.receiver)),
        };
        let (res, was_claimed) = c.check_close(&who, end);
        // result table of the end state machine
        if this_unclaimed {
            assert!(res == CloseChannelEndResult::Ok && !was_claimed, "anyone may close an unclaimed end");
        } else if this_closed {
            assert!(res == CloseChannelEndResult::InvalidChannel);
        } else if this0.unwrap().0 == who {
            assert!(res == CloseChannelEndResult::Ok && was_claimed);
        } else {
            assert!(res == CloseChannelEndResult::ForeignChannel, "only the owner can close a claimed end");
        }
        if res == CloseChannelEndResult::Ok {
            let notify = c.close(end).copied();
            match end {
                ChannelEnd::Sender => assert!(is_closed(&c.sender) && claimed(&c.receiver) == r0),
                ChannelEnd::Receiver => assert!(is_closed(&c.receiver) && claimed(&c.sender) == s0),
            }
            assert!(notify == other0.map(|(o, _)| o), "peer is told iff it is claimed");
            if notify.is_some() {
                assert!(inv(&c), "a channel that stays in the map satisfies the invariant");
            }
            kani::cover!(notify.is_some());
            kani::cover!(notify.is_none());
        }
    }

    /// The three internal call sites of `close` (via `remove_channel_end`): shutdown of the owner of a
    /// claimed end, `send_item` error paths, and an overflowing grant. Precondition at each: the end
    /// being closed is claimed by the given owner, or (ReceiverUnclaimed path) the receiver is
    /// unclaimed and the sender claimed.
    #[kani::proof]
    fn q_c05_c11_channel_close_internal_sites() {
        let mut c = any_channel();
        let end = any_end();
        let this = match end {
            ChannelEnd::Sender => claimed(&c.sender),
            ChannelEnd::Receiver => claimed(&c.receiver),
        };
        kani::assume(this.is_some());
        let other = match end {
            ChannelEnd::Sender => claimed(&c.receiver),
            ChannelEnd::Receiver => claimed(&c.sender),
        };
        let notify = c.close(end).copied();
        assert!(notify == other.map(|(o, _)| o));
        if notify.is_some() {
            assert!(inv(&c));
        }
    }

    #[kani::proof]
    fn q_c05_c11_channel_close_receiver_unclaimed_path() {
        // send_item error ReceiverUnclaimed: close(Receiver) with owner None, then close(Sender).
        let mut c = any_channel();
        let who = any_conn();
        let s0 = claimed(&c.sender);
        kani::assume(matches!(c.send_item(&who), Err(SendItemError::ReceiverUnclaimed)));
        let n1 = c.close(ChannelEnd::Receiver).copied();
        assert!(n1 == Some(who) && s0.unwrap().0 == who, "the sender learns that the receiver end is gone");
        let n2 = c.close(ChannelEnd::Sender).copied();
        assert!(n2.is_none(), "then the whole channel goes away");
    }

    #[cfg(any(verif_unit = "all", verif_unit = "channel_t"))]
    #[kani::proof]
    #[kani::should_panic]
    fn t_c05_channel_twin_unreachable_is_reachable_without_precondition() {
        // vacuity witness: without the broker's precondition, `close` does reach its
        // `unreachable!()` arm, so the harnesses above are not passing for lack of reachable states.
        let mut c = any_channel();
        let end = any_end();
        let _ = c.close(end);
    }

    #[cfg(verif_replay)]
    include!("/verif/.cache/replay/broker__channel__verif__harnesses.rs");
}
