//! Accessors for `Object` (fields are private to broker/object.rs).
#![allow(dead_code, unused_imports, missing_debug_implementations, missing_docs, unreachable_pub, unnameable_types)]
use super::Object;
use crate::verif_collections::HashSet;
use aldrin_core::ServiceCookie;

pub(crate) fn svcs(o: &Object) -> &HashSet<ServiceCookie> {
    &o.svcs
}
pub(crate) fn svcs_mut(o: &mut Object) -> &mut HashSet<ServiceCookie> {
    &mut o.svcs
}
