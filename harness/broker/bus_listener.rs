//! C10-a/b: the filter predicate (aldrin-core) and the broker's `BusListener` with its
//! incrementally maintained flags; child of broker/src/bus_listener.rs.
#![allow(dead_code, unused_imports, missing_debug_implementations, missing_docs, unreachable_pub, unnameable_types)]
use super::BusListener;
use crate::conn_id::ConnectionId;
use crate::verif::env::*;
use crate::verif_collections::{HashSet, CAP};
use aldrin_core::{
    BusEvent, BusListenerFilter, BusListenerScope, BusListenerServiceFilter, ObjectId, ObjectUuid,
    ServiceId, ServiceUuid,
};

pub(crate) fn filters(l: &BusListener) -> &HashSet<BusListenerFilter> {
    &l.filters
}
pub(crate) fn scope(l: &BusListener) -> Option<BusListenerScope> {
    l.scope
}

/// One of the six filter shapes over a pool of `n` object / service uuids.
pub(crate) fn any_filter(n: u8) -> BusListenerFilter {
    let shape: u8 = kani::any();
    kani::assume(shape < 6);
    let o = obj_uuid(any_below(n));
    let s = svc_uuid(any_below(n));
    match shape {
        0 => BusListenerFilter::any_object(),
        1 => BusListenerFilter::object(o),
        2 => BusListenerFilter::any_object_any_service(),
        3 => BusListenerFilter::specific_object_any_service(o),
        4 => BusListenerFilter::any_object_specific_service(s),
        _ => BusListenerFilter::specific_object_and_service(o, s),
    }
}

pub(crate) fn any_scope() -> BusListenerScope {
    match kani::any::<u8>() % 3 {
        0 => BusListenerScope::Current,
        1 => BusListenerScope::New,
        _ => BusListenerScope::All,
    }
}

fn is_specific_service(f: &BusListenerFilter) -> bool {
    matches!(
        f,
        BusListenerFilter::Service(BusListenerServiceFilter {
            object: Some(_),
            service: Some(_)
        })
    )
}

/// The two flags are functions of the filter set.
pub(crate) fn inv(l: &BusListener) -> bool {
    let mut any_obj = false;
    let mut all_specific = true;
    let mut i = 0;
    while i < CAP {
        if let Some(f) = &l.filters.slots[i] {
            if *f == BusListenerFilter::Object(None) {
                any_obj = true;
            }
            if !is_specific_service(f) {
                all_specific = false;
            }
        }
        i += 1;
    }
    l.matches_all_objects == any_obj && l.matches_specific_services == all_specific
}

/// Arbitrary listener owned by `owner` with up to `k` filters (distinct, arbitrary slots),
/// arbitrary scope, flags as the invariant dictates.
pub(crate) fn any_listener(owner: u8, k: usize, pool: u8) -> BusListener {
    let mut l = BusListener::new(ConnectionId(owner));
    let mut i = 0;
    while i < CAP {
        if i < k && kani::any() {
            let f = any_filter(pool);
            let mut j = 0;
            while j < i {
                kani::assume(l.filters.slots[j] != Some(f));
                j += 1;
            }
            l.filters.slots[i] = Some(f);
        }
        i += 1;
    }
    l.scope = if kani::any() { Some(any_scope()) } else { None };
    l.matches_all_objects = kani::any();
    l.matches_specific_services = kani::any();
    kani::assume(inv(&l));
    l
}

fn spec_matches_object(f: &BusListenerFilter, o: ObjectId) -> bool {
    match f {
        BusListenerFilter::Object(None) => true,
        BusListenerFilter::Object(Some(u)) => *u == o.uuid,
        BusListenerFilter::Service(_) => false,
    }
}

fn spec_matches_service(f: &BusListenerFilter, s: ServiceId) -> bool {
    match f {
        BusListenerFilter::Object(_) => false,
        BusListenerFilter::Service(sf) => {
            sf.object.map(|o| o == s.object_id.uuid).unwrap_or(true) && sf.service.map(|u| u == s.uuid).unwrap_or(true)
        }
    }
}

pub(crate) fn any_object_id(pool: u8) -> ObjectId {
    ObjectId::new(obj_uuid(any_below(pool)), obj_cookie(kani::any()))
}

pub(crate) fn any_service_id(pool: u8) -> ServiceId {
    ServiceId::new(any_object_id(pool), svc_uuid(any_below(pool)), svc_cookie(kani::any()))
}

pub(crate) fn spec_listener_matches_object(l: &BusListener, o: ObjectId) -> bool {
    let mut m = false;
    let mut i = 0;
    while i < CAP {
        if let Some(f) = &l.filters.slots[i] {
            m |= spec_matches_object(f, o);
        }
        i += 1;
    }
    m
}

pub(crate) fn spec_listener_matches_service(l: &BusListener, s: ServiceId) -> bool {
    let mut m = false;
    let mut i = 0;
    while i < CAP {
        if let Some(f) = &l.filters.slots[i] {
            m |= spec_matches_service(f, s);
        }
        i += 1;
    }
    m
}

#[cfg(any(verif_unit = "all", verif_unit = "bus_listener", verif_unit = "bus_listener_t"))]
mod harnesses {
    use super::*;

    /// C10-a: the filter predicate of aldrin-core against its specification.
    #[kani::proof]
    #[kani::unwind(18)]
    fn q_c10_filter_predicate() {
        let f = any_filter(3);
        let o = any_object_id(3);
        let s = any_service_id(3);
        assert!(f.matches_object(o) == spec_matches_object(&f, o));
        assert!(f.matches_service(s) == spec_matches_service(&f, s));
        assert!(f.matches_event(BusEvent::ObjectCreated(o)) == spec_matches_object(&f, o));
        assert!(f.matches_event(BusEvent::ObjectDestroyed(o)) == spec_matches_object(&f, o));
        assert!(f.matches_event(BusEvent::ServiceCreated(s)) == spec_matches_service(&f, s));
        assert!(f.matches_event(BusEvent::ServiceDestroyed(s)) == spec_matches_service(&f, s));
        assert!(BusListenerScope::All.includes_new() && BusListenerScope::All.includes_current());
        assert!(BusListenerScope::New.includes_new() && !BusListenerScope::New.includes_current());
        assert!(!BusListenerScope::Current.includes_new() && BusListenerScope::Current.includes_current());
    }

    /// C10-b: add / remove / clear keep the flags equal to their definition (so the claim holds
    /// for filter histories of any length), and membership changes exactly as a set.
    #[kani::proof]
    #[kani::unwind(18)]
    fn q_c10_listener_filter_ops_keep_flags() {
        let mut l = any_listener(0, 2, 2);
        let f = any_filter(2);
        let probe = any_filter(2);
        let had_probe = l.filters.contains(&probe);
        let scope0 = l.scope;
        let op: u8 = kani::any();
        kani::assume(op < 3);
        match op {
            0 => {
                l.add_filter(f);
                assert!(l.filters.contains(&probe) == (had_probe || probe == f));
            }
            1 => {
                l.remove_filter(f);
                assert!(l.filters.contains(&probe) == (had_probe && probe != f));
            }
            _ => {
                l.clear_filters();
                assert!(l.filters.is_empty());
            }
        }
        assert!(inv(&l), "matches_all_objects / matches_specific_services equal their definition");
        assert!(l.scope == scope0 && l.conn_id == ConnectionId(0), "filter operations neither start nor stop the listener, nor change its owner");
        kani::cover!(scope0.is_some());
        kani::cover!(op == 0 && l.matches_all_objects);
        kani::cover!(op == 1 && l.matches_specific_services && !l.filters.is_empty());
        std::mem::forget(l);
    }

    /// C10-b: under the invariant the fast path over specific objects agrees with the scan path.
    #[cfg(not(verif_quick))]
    #[kani::proof]
    #[kani::unwind(18)]
    fn q_c10_listener_specific_objects_agree() {
        let l = any_listener(0, 1, 2);
        let o = any_object_id(2);
        assert!(l.matches_object(o) == spec_listener_matches_object(&l, o));
        match l.specific_objects() {
            None => assert!(l.filters.contains(&BusListenerFilter::Object(None))),
            Some(it) => {
                let mut hits = 0;
                for u in it {
                    if u == o.uuid {
                        hits += 1;
                    }
                }
                assert!(hits <= 1, "each uuid at most once");
                assert!((hits == 1) == l.matches_object(o), "specific path yields exactly the matching objects");
            }
        }
        kani::cover!(l.specific_objects().is_none());
        kani::cover!(l.specific_objects().is_some() && l.matches_object(o));
        std::mem::forget(l);
    }

    /// C10-b: same for services.
    // not registered: the SAT back end runs out of memory (> 14 GB) on this lemma with CAP = 3
    #[cfg(verif_experimental)]
    #[kani::proof]
    #[kani::unwind(18)]
    fn q_c10_listener_specific_services_agree() {
        let l = any_listener(0, 1, 2);
        let o = any_object_id(2);
        let s = any_service_id(2);
        assert!(l.matches_service(s) == spec_listener_matches_service(&l, s));
        match l.specific_services() {
            None => {}
            Some(it) => {
                let mut hits = 0;
                for (ou, su) in it {
                    if ou == s.object_id.uuid && su == s.uuid {
                        hits += 1;
                    }
                }
                assert!(hits <= 1);
                assert!((hits == 1) == l.matches_service(s), "specific path yields exactly the matching services");
                // and no object filter can be present, so objects never match
                assert!(!l.matches_object(o));
            }
        }
        kani::cover!(l.specific_services().is_some() && l.matches_service(s));
        kani::cover!(l.specific_services().is_none());
        std::mem::forget(l);
    }

    /// C10-b: two filters of fixed kinds (symbolic uuids): specific object + specific service
    /// cannot both take the fast paths; two specific objects are enumerated once each.
    #[cfg(not(verif_quick))]
    #[kani::proof]
    #[kani::unwind(18)]
    fn q_c10_listener_two_filters_paths() {
        let mut l = BusListener::new(ConnectionId(0));
        let o1 = obj_uuid(any_below(2));
        let o2 = obj_uuid(any_below(2));
        let sv = svc_uuid(any_below(2));
        l.add_filter(BusListenerFilter::object(o1));
        if kani::any() {
            l.add_filter(BusListenerFilter::object(o2));
        } else {
            l.add_filter(BusListenerFilter::specific_object_and_service(o2, sv));
        }
        assert!(inv(&l));
        let o = any_object_id(2);
        let mut hits = 0;
        match l.specific_objects() {
            Some(it) => {
                for u in it {
                    if u == o.uuid {
                        hits += 1;
                    }
                }
            }
            None => panic!("no any-object filter was added"),
        }
        assert!(hits <= 1 && (hits == 1) == l.matches_object(o));
        assert!(l.specific_services().is_none(), "an object filter disables the specific-service fast path");
        std::mem::forget(l);
    }

    /// C10-b: new events match iff started with a scope that includes new and a filter matches.
    #[kani::proof]
    #[kani::unwind(18)]
    fn q_c10_listener_matches_new_event() {
        let l = any_listener(0, 2, 2);
        let o = any_object_id(2);
        let s = any_service_id(2);
        let e = match kani::any::<u8>() % 4 {
            0 => BusEvent::ObjectCreated(o),
            1 => BusEvent::ObjectDestroyed(o),
            2 => BusEvent::ServiceCreated(s),
            _ => BusEvent::ServiceDestroyed(s),
        };
        let spec = match e {
            BusEvent::ObjectCreated(o) | BusEvent::ObjectDestroyed(o) => spec_listener_matches_object(&l, o),
            BusEvent::ServiceCreated(s) | BusEvent::ServiceDestroyed(s) => spec_listener_matches_service(&l, s),
        };
        let started_new = l.scope.map(|s| s != BusListenerScope::Current).unwrap_or(false);
        assert!(l.matches_new_event(e) == (started_new && spec), "new events only while started with a scope that includes new");
        kani::cover!(l.matches_new_event(e));
        std::mem::forget(l);
    }

    #[kani::proof]
    #[kani::unwind(18)]
    fn q_c10_listener_start_stop() {
        let mut l = any_listener(0, 1, 2);
        let sc0 = l.scope;
        let sc = any_scope();
        if kani::any() {
            let ok = l.start(sc);
            assert!(ok == sc0.is_none());
            assert!(l.scope == if ok { Some(sc) } else { sc0 }, "a started listener is not restarted");
        } else {
            let ok = l.stop();
            assert!(ok == sc0.is_some() && l.scope.is_none());
        }
        assert!(inv(&l));
        std::mem::forget(l);
    }

    #[cfg(verif_replay)]
    include!("/verif/.cache/replay/bus_listener__verif__harnesses.rs");
}
