//! Environment of the broker harnesses: the send log that replaces the unbounded mpsc sender
//! (`ConnectionState::send` is swapped under `cfg(kani)`), the fresh-cookie generator that replaces
//! the UUIDv4 RNG, small pools of uuids/cookies, and constructors for connections.
#![allow(dead_code, unused_imports, missing_debug_implementations, missing_docs, unreachable_pub, unnameable_types, static_mut_refs)]

use crate::conn_id::ConnectionId;
use crate::versioned_message::VersionedMessage;
use aldrin_core::message::Message;
use aldrin_core::{
    BusListenerCookie, ChannelCookie, ObjectCookie, ObjectUuid, ProtocolVersion, ServiceCookie,
    ServiceUuid,
};
use futures_channel::mpsc::{unbounded, UnboundedSender};

pub(crate) const NCONN: usize = 3;
pub(crate) const LOG_CAP: usize = 8;

pub(crate) struct LogEntry {
    /// tag of the connection the message was sent to
    pub to: u8,
    pub msg: Message,
    /// protocol version the payload is encoded in (None = broker's own / no payload)
    pub version: Option<ProtocolVersion>,
}

const NO_ENTRY: Option<LogEntry> = None;
const NO_SENDER: Option<UnboundedSender<VersionedMessage>> = None;

static mut LOG: [Option<LogEntry>; LOG_CAP] = [NO_ENTRY; LOG_CAP];
static mut LOG_LEN: usize = 0;
static mut SENDERS: [Option<UnboundedSender<VersionedMessage>>; NCONN] = [NO_SENDER; NCONN];
/// connection `i`'s peer is gone: sending to it fails (nothing is logged)
static mut SEND_FAILS: [bool; NCONN] = [false; NCONN];

/// Replacement of `UnboundedSender::unbounded_send` inside `ConnectionState::send`: the message is
/// appended to the log in call order, or the send fails if the harness marked the peer as gone.
pub(crate) fn log_send(sender: &UnboundedSender<VersionedMessage>, msg: VersionedMessage) -> Result<(), ()> {
    unsafe {
        let mut tag = NCONN;
        let mut i = 0;
        while i < NCONN {
            if let Some(s) = &SENDERS[i] {
                if s.same_receiver(sender) {
                    tag = i;
                }
            }
            i += 1;
        }
        assert!(tag < NCONN, "send on a connection the harness does not know");
        if SEND_FAILS[tag] {
            std::mem::forget(msg);
            return Err(());
        }
        assert!(LOG_LEN < LOG_CAP, "send log overflow: more messages than any lemma expects");
        LOG[LOG_LEN] = Some(LogEntry {
            to: tag as u8,
            msg: msg.msg,
            version: msg.version,
        });
        LOG_LEN += 1;
        Ok(())
    }
}

pub(crate) fn log_len() -> usize {
    unsafe { LOG_LEN }
}

pub(crate) fn log(i: usize) -> &'static LogEntry {
    unsafe { LOG[i].as_ref().unwrap() }
}

/// number of logged messages addressed to connection `to`
pub(crate) fn log_count_to(to: u8) -> usize {
    let mut n = 0;
    let mut i = 0;
    while i < LOG_CAP {
        if i < log_len() && log(i).to == to {
            n += 1;
        }
        i += 1;
    }
    n
}

pub(crate) fn set_send_fails(tag: u8, fails: bool) {
    unsafe {
        SEND_FAILS[tag as usize] = fails;
    }
}

pub(crate) fn send_fails(tag: u8) -> bool {
    unsafe { SEND_FAILS[tag as usize] }
}

/// A fresh sender for connection `tag`, registered with the log.
pub(crate) fn new_sender(tag: u8) -> UnboundedSender<VersionedMessage> {
    let (tx, rx) = unbounded();
    std::mem::forget(rx);
    unsafe {
        SENDERS[tag as usize] = Some(tx.clone());
    }
    tx
}

pub(crate) fn conn(tag: u8) -> ConnectionId {
    ConnectionId(tag)
}

pub(crate) fn any_conn_tag() -> u8 {
    let t: u8 = kani::any();
    kani::assume((t as usize) < NCONN);
    t
}

pub(crate) fn any_version() -> ProtocolVersion {
    let minor: u32 = kani::any();
    kani::assume(minor >= 14 && minor <= 20);
    ProtocolVersion::new(1, minor)
}

// -------------------------------------------------------------------------------------------------
// small pools of ids: only the last byte varies, so equality stays cheap and collisions are common
// -------------------------------------------------------------------------------------------------

fn bytes(b: u8) -> [u8; 16] {
    [0, 0, 0, 0, 0, 0, 0, 0, 0, 0, 0, 0, 0, 0, 0, b]
}

pub(crate) fn obj_uuid(b: u8) -> ObjectUuid {
    unsafe { std::mem::transmute::<[u8; 16], ObjectUuid>(bytes(b)) }
}

pub(crate) fn svc_uuid(b: u8) -> ServiceUuid {
    unsafe { std::mem::transmute::<[u8; 16], ServiceUuid>(bytes(b)) }
}

pub(crate) fn obj_cookie(b: u8) -> ObjectCookie {
    unsafe { std::mem::transmute::<[u8; 16], ObjectCookie>(bytes(b)) }
}

pub(crate) fn svc_cookie(b: u8) -> ServiceCookie {
    unsafe { std::mem::transmute::<[u8; 16], ServiceCookie>(bytes(b)) }
}

pub(crate) fn chan_cookie(b: u8) -> ChannelCookie {
    unsafe { std::mem::transmute::<[u8; 16], ChannelCookie>(bytes(b)) }
}

pub(crate) fn listener_cookie(b: u8) -> BusListenerCookie {
    unsafe { std::mem::transmute::<[u8; 16], BusListenerCookie>(bytes(b)) }
}

pub(crate) fn last_byte<T: Copy>(id: T) -> u8 {
    assert!(std::mem::size_of::<T>() == 16);
    let b: [u8; 16] = unsafe { std::mem::transmute_copy(&id) };
    b[15]
}

/// pool index: ids are drawn from `0..n`
pub(crate) fn any_below(n: u8) -> u8 {
    let b: u8 = kani::any();
    kani::assume(b < n);
    b
}

// -------------------------------------------------------------------------------------------------
// RNG replacement: `*Cookie::new_v4` return the value the harness chose as "fresh" (it assumes the
// value is distinct from every cookie of the pre-state: freshness of UUIDv4 is an assumption)
// -------------------------------------------------------------------------------------------------

static mut FRESH: u8 = 0xf0;

pub(crate) fn set_fresh(b: u8) {
    unsafe { FRESH = b }
}

pub(crate) fn fresh() -> u8 {
    unsafe { FRESH }
}

pub(crate) fn fresh_obj_cookie() -> ObjectCookie {
    obj_cookie(fresh())
}

pub(crate) fn fresh_svc_cookie() -> ServiceCookie {
    svc_cookie(fresh())
}

pub(crate) fn fresh_chan_cookie() -> ChannelCookie {
    chan_cookie(fresh())
}

pub(crate) fn fresh_listener_cookie() -> BusListenerCookie {
    listener_cookie(fresh())
}
