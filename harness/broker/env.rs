//! Environment of the broker harnesses: the send log that replaces the unbounded mpsc sender
//! (`ConnectionState::send` is swapped under `cfg(kani)`), the fresh-cookie generator that replaces
//! the UUIDv4 RNG, small pools of uuids/cookies, and constructors for connections.
#![allow(dead_code, unused_imports, missing_debug_implementations, missing_docs, unreachable_pub, unnameable_types, static_mut_refs)]

use crate::conn_id::ConnectionId;
use crate::versioned_message::VersionedMessage;
use aldrin_core::message::Message;
use aldrin_core::{
    BusListenerCookie, ChannelCookie, ObjectCookie, ObjectUuid, ProtocolVersion, ServiceCookie,
    ServiceUuid,
};
use futures_channel::mpsc::{unbounded, UnboundedSender};

pub(crate) const NCONN: usize = 3;
pub(crate) const LOG_CAP: usize = 6;

/// Kind of a logged broker -> client message.
#[derive(Clone, Copy, PartialEq, Eq, Debug)]
pub(crate) enum K {
    CreateObjectReply,
    DestroyObjectReply,
    CreateServiceReply,
    DestroyServiceReply,
    CallFunction,
    CallFunction2,
    CallFunctionReply,
    AbortFunctionCall,
    SubscribeEvent,
    SubscribeEventReply,
    UnsubscribeEvent,
    EmitEvent,
    QueryServiceVersionReply,
    QueryServiceInfoReply,
    CreateChannelReply,
    CloseChannelEndReply,
    ChannelEndClosed,
    ClaimChannelEndReply,
    ChannelEndClaimed,
    ItemReceived,
    AddChannelCapacity,
    SyncReply,
    ServiceDestroyed,
    CreateBusListenerReply,
    DestroyBusListenerReply,
    StartBusListenerReply,
    StopBusListenerReply,
    EmitBusEvent,
    BusListenerCurrentFinished,
    Shutdown,
    SubscribeServiceReply,
    SubscribeAllEvents,
    SubscribeAllEventsReply,
    UnsubscribeAllEvents,
    UnsubscribeAllEventsReply,
    QueryIntrospectionReply,
    Other,
}

/// Compact digest of one logged message (the messages themselves - big enums with `BytesMut`
/// payloads - made every log access a large formula; the digest keeps the fields the lemmas talk
/// about). Cookies/uuids are represented by their last byte (the pools vary only there).
#[derive(Clone, Copy, PartialEq, Eq, Debug)]
pub(crate) struct LogEntry {
    /// tag of the connection the message was sent to
    pub to: u8,
    pub kind: K,
    /// request serial echoed / broker serial (0 if the kind has none); `has_serial` for Option serials
    pub serial: u32,
    pub has_serial: bool,
    /// the cookie the message is about (object / service / channel / listener), last byte
    pub cookie: u8,
    /// second id: object uuid byte of bus events, service uuid byte in `aux2`
    pub aux: u32,
    pub aux2: u32,
    /// result / end / event-kind code, see `digest`
    pub code: u8,
    /// payload: length and first two bytes (0 if none)
    pub vlen: u8,
    pub v0: u8,
    pub v1: u8,
    /// minor protocol version the payload is tagged with (0 = untagged)
    pub vminor: u8,
}

const EMPTY: LogEntry = LogEntry {
    to: 0xff,
    kind: K::Other,
    serial: 0,
    has_serial: false,
    cookie: 0,
    aux: 0,
    aux2: 0,
    code: 0,
    vlen: 0,
    v0: 0,
    v1: 0,
    vminor: 0,
};

const NO_SENDER: Option<UnboundedSender<VersionedMessage>> = None;

static mut LOG: [LogEntry; LOG_CAP] = [EMPTY; LOG_CAP];
static mut LOG_LEN: usize = 0;
static mut SENDERS: [Option<UnboundedSender<VersionedMessage>>; NCONN] = [NO_SENDER; NCONN];
/// connection `i`'s peer is gone: sending to it fails (nothing is logged)
static mut SEND_FAILS: [bool; NCONN] = [false; NCONN];

fn payload(e: &mut LogEntry, v: &aldrin_core::SerializedValue) {
    let b: &[u8] = v;
    e.vlen = b.len() as u8;
    if b.len() >= 1 {
        e.v0 = b[0];
    }
    if b.len() >= 2 {
        e.v1 = b[1];
    }
}

fn end_code(end: aldrin_core::ChannelEnd) -> u8 {
    match end {
        aldrin_core::ChannelEnd::Sender => 0,
        aldrin_core::ChannelEnd::Receiver => 1,
    }
}

/// result codes: the variant index of the result enum (Ok = 0, then in declaration order)
fn digest(to: u8, msg: &Message, version: Option<ProtocolVersion>) -> LogEntry {
    use aldrin_core::message::*;
    let mut e = EMPTY;
    e.to = to;
    e.vminor = version.map(|v| v.minor() as u8).unwrap_or(0);
    match msg {
        Message::CreateObjectReply(m) => {
            e.kind = K::CreateObjectReply;
            e.serial = m.serial;
            match m.result {
                CreateObjectResult::Ok(c) => e.cookie = last_byte(c),
                CreateObjectResult::DuplicateObject => e.code = 1,
            }
        }
        Message::DestroyObjectReply(m) => {
            e.kind = K::DestroyObjectReply;
            e.serial = m.serial;
            e.code = m.result as u8;
        }
        Message::CreateServiceReply(m) => {
            e.kind = K::CreateServiceReply;
            e.serial = m.serial;
            match m.result {
                CreateServiceResult::Ok(c) => e.cookie = last_byte(c),
                CreateServiceResult::DuplicateService => e.code = 1,
                CreateServiceResult::InvalidObject => e.code = 2,
                CreateServiceResult::ForeignObject => e.code = 3,
            }
        }
        Message::DestroyServiceReply(m) => {
            e.kind = K::DestroyServiceReply;
            e.serial = m.serial;
            e.code = m.result as u8;
        }
        Message::CallFunction(m) => {
            e.kind = K::CallFunction;
            e.serial = m.serial;
            e.cookie = last_byte(m.service_cookie);
            e.aux = m.function;
            payload(&mut e, &m.value);
        }
        Message::CallFunction2(m) => {
            e.kind = K::CallFunction2;
            e.serial = m.serial;
            e.cookie = last_byte(m.service_cookie);
            e.aux = m.function;
            e.has_serial = m.version.is_some();
            e.aux2 = m.version.unwrap_or(0);
            payload(&mut e, &m.value);
        }
        Message::CallFunctionReply(m) => {
            e.kind = K::CallFunctionReply;
            e.serial = m.serial;
            match &m.result {
                CallFunctionResult::Ok(v) => payload(&mut e, v),
                CallFunctionResult::Err(v) => {
                    e.code = 1;
                    payload(&mut e, v);
                }
                CallFunctionResult::Aborted => e.code = 2,
                CallFunctionResult::InvalidService => e.code = 3,
                CallFunctionResult::InvalidFunction => e.code = 4,
                CallFunctionResult::InvalidArgs => e.code = 5,
            }
        }
        Message::AbortFunctionCall(m) => {
            e.kind = K::AbortFunctionCall;
            e.serial = m.serial;
        }
        Message::SubscribeEvent(m) => {
            e.kind = K::SubscribeEvent;
            e.has_serial = m.serial.is_some();
            e.serial = m.serial.unwrap_or(0);
            e.cookie = last_byte(m.service_cookie);
            e.aux = m.event;
        }
        Message::SubscribeEventReply(m) => {
            e.kind = K::SubscribeEventReply;
            e.serial = m.serial;
            e.code = m.result as u8;
        }
        Message::UnsubscribeEvent(m) => {
            e.kind = K::UnsubscribeEvent;
            e.cookie = last_byte(m.service_cookie);
            e.aux = m.event;
        }
        Message::EmitEvent(m) => {
            e.kind = K::EmitEvent;
            e.cookie = last_byte(m.service_cookie);
            e.aux = m.event;
            payload(&mut e, &m.value);
        }
        Message::QueryServiceVersionReply(m) => {
            e.kind = K::QueryServiceVersionReply;
            e.serial = m.serial;
            match m.result {
                QueryServiceVersionResult::Ok(v) => e.aux = v,
                QueryServiceVersionResult::InvalidService => e.code = 1,
            }
        }
        Message::QueryServiceInfoReply(m) => {
            e.kind = K::QueryServiceInfoReply;
            e.serial = m.serial;
            match &m.result {
                QueryServiceInfoResult::Ok(v) => payload(&mut e, v),
                QueryServiceInfoResult::InvalidService => e.code = 1,
            }
        }
        Message::CreateChannelReply(m) => {
            e.kind = K::CreateChannelReply;
            e.serial = m.serial;
            e.cookie = last_byte(m.cookie);
        }
        Message::CloseChannelEndReply(m) => {
            e.kind = K::CloseChannelEndReply;
            e.serial = m.serial;
            e.code = m.result as u8;
        }
        Message::ChannelEndClosed(m) => {
            e.kind = K::ChannelEndClosed;
            e.cookie = last_byte(m.cookie);
            e.code = end_code(m.end);
        }
        Message::ClaimChannelEndReply(m) => {
            e.kind = K::ClaimChannelEndReply;
            e.serial = m.serial;
            match m.result {
                ClaimChannelEndResult::SenderClaimed(c) => e.aux = c,
                ClaimChannelEndResult::ReceiverClaimed => e.code = 1,
                ClaimChannelEndResult::InvalidChannel => e.code = 2,
                ClaimChannelEndResult::AlreadyClaimed => e.code = 3,
            }
        }
        Message::ChannelEndClaimed(m) => {
            e.kind = K::ChannelEndClaimed;
            e.cookie = last_byte(m.cookie);
            match m.end {
                aldrin_core::ChannelEndWithCapacity::Sender => e.code = 0,
                aldrin_core::ChannelEndWithCapacity::Receiver(c) => {
                    e.code = 1;
                    e.aux = c;
                }
            }
        }
        Message::ItemReceived(m) => {
            e.kind = K::ItemReceived;
            e.cookie = last_byte(m.cookie);
            payload(&mut e, &m.value);
        }
        Message::AddChannelCapacity(m) => {
            e.kind = K::AddChannelCapacity;
            e.cookie = last_byte(m.cookie);
            e.aux = m.capacity;
        }
        Message::SyncReply(m) => {
            e.kind = K::SyncReply;
            e.serial = m.serial;
        }
        Message::ServiceDestroyed(m) => {
            e.kind = K::ServiceDestroyed;
            e.cookie = last_byte(m.service_cookie);
        }
        Message::CreateBusListenerReply(m) => {
            e.kind = K::CreateBusListenerReply;
            e.serial = m.serial;
            e.cookie = last_byte(m.cookie);
        }
        Message::DestroyBusListenerReply(m) => {
            e.kind = K::DestroyBusListenerReply;
            e.serial = m.serial;
            e.code = m.result as u8;
        }
        Message::StartBusListenerReply(m) => {
            e.kind = K::StartBusListenerReply;
            e.serial = m.serial;
            e.code = m.result as u8;
        }
        Message::StopBusListenerReply(m) => {
            e.kind = K::StopBusListenerReply;
            e.serial = m.serial;
            e.code = m.result as u8;
        }
        Message::EmitBusEvent(m) => {
            e.kind = K::EmitBusEvent;
            e.has_serial = m.cookie.is_some();
            e.cookie = m.cookie.map(last_byte).unwrap_or(0);
            // code: 0 object created, 1 object destroyed, 2 service created, 3 service destroyed;
            // aux: object uuid byte << 8 | object cookie byte; aux2: service uuid byte << 8 | service cookie byte
            match m.event {
                aldrin_core::BusEvent::ObjectCreated(o) => {
                    e.code = 0;
                    e.aux = ((last_byte(o.uuid) as u32) << 8) | last_byte(o.cookie) as u32;
                }
                aldrin_core::BusEvent::ObjectDestroyed(o) => {
                    e.code = 1;
                    e.aux = ((last_byte(o.uuid) as u32) << 8) | last_byte(o.cookie) as u32;
                }
                aldrin_core::BusEvent::ServiceCreated(s) => {
                    e.code = 2;
                    e.aux = ((last_byte(s.object_id.uuid) as u32) << 8) | last_byte(s.object_id.cookie) as u32;
                    e.aux2 = ((last_byte(s.uuid) as u32) << 8) | last_byte(s.cookie) as u32;
                }
                aldrin_core::BusEvent::ServiceDestroyed(s) => {
                    e.code = 3;
                    e.aux = ((last_byte(s.object_id.uuid) as u32) << 8) | last_byte(s.object_id.cookie) as u32;
                    e.aux2 = ((last_byte(s.uuid) as u32) << 8) | last_byte(s.cookie) as u32;
                }
            }
        }
        Message::BusListenerCurrentFinished(m) => {
            e.kind = K::BusListenerCurrentFinished;
            e.cookie = last_byte(m.cookie);
        }
        Message::Shutdown(_) => e.kind = K::Shutdown,
        Message::SubscribeServiceReply(m) => {
            e.kind = K::SubscribeServiceReply;
            e.serial = m.serial;
            e.code = m.result as u8;
        }
        Message::SubscribeAllEvents(m) => {
            e.kind = K::SubscribeAllEvents;
            e.has_serial = m.serial.is_some();
            e.serial = m.serial.unwrap_or(0);
            e.cookie = last_byte(m.service_cookie);
        }
        Message::SubscribeAllEventsReply(m) => {
            e.kind = K::SubscribeAllEventsReply;
            e.serial = m.serial;
            e.code = m.result as u8;
        }
        Message::UnsubscribeAllEvents(m) => {
            e.kind = K::UnsubscribeAllEvents;
            e.has_serial = m.serial.is_some();
            e.serial = m.serial.unwrap_or(0);
            e.cookie = last_byte(m.service_cookie);
        }
        Message::UnsubscribeAllEventsReply(m) => {
            e.kind = K::UnsubscribeAllEventsReply;
            e.serial = m.serial;
            e.code = m.result as u8;
        }
        Message::QueryIntrospectionReply(m) => {
            e.kind = K::QueryIntrospectionReply;
            e.serial = m.serial;
            e.code = matches!(m.result, QueryIntrospectionResult::Unavailable) as u8;
        }
        _ => e.kind = K::Other,
    }
    e
}

/// Replacement of `UnboundedSender::unbounded_send` inside `ConnectionState::send`: a digest of
/// the message is appended to the log in call order, or the send fails if the harness marked the
/// peer as gone.
pub(crate) fn log_send(sender: &UnboundedSender<VersionedMessage>, msg: VersionedMessage) -> Result<(), ()> {
    unsafe {
        let mut tag = NCONN;
        let mut i = 0;
        while i < NCONN {
            if let Some(s) = &SENDERS[i] {
                if s.same_receiver(sender) {
                    tag = i;
                }
            }
            i += 1;
        }
        assert!(tag < NCONN, "send on a connection the harness does not know");
        let fails = match tag {
            0 => SEND_FAILS[0],
            1 => SEND_FAILS[1],
            _ => SEND_FAILS[2],
        };
        if fails {
            std::mem::forget(msg);
            return Err(());
        }
        assert!(LOG_LEN < LOG_CAP, "send log overflow: more messages than any lemma expects");
        let e = digest(tag as u8, &msg.msg, msg.version);
        std::mem::forget(msg);
        // case split instead of a symbolic array index
        match LOG_LEN {
            0 => LOG[0] = e,
            1 => LOG[1] = e,
            2 => LOG[2] = e,
            3 => LOG[3] = e,
            4 => LOG[4] = e,
            _ => LOG[5] = e,
        }
        LOG_LEN += 1;
        Ok(())
    }
}

pub(crate) fn log_len() -> usize {
    unsafe { LOG_LEN }
}

pub(crate) fn log(i: usize) -> LogEntry {
    unsafe {
        match i {
            0 => LOG[0],
            1 => LOG[1],
            2 => LOG[2],
            3 => LOG[3],
            4 => LOG[4],
            _ => LOG[5],
        }
    }
}

/// number of logged messages addressed to connection `to`
pub(crate) fn log_count_to(to: u8) -> usize {
    count_where(|e| e.to == to)
}

pub(crate) fn count_where(pred: impl Fn(&LogEntry) -> bool) -> usize {
    let mut n = 0;
    let mut i = 0;
    while i < LOG_CAP {
        if i < log_len() && pred(&log(i)) {
            n += 1;
        }
        i += 1;
    }
    n
}

/// the first logged entry satisfying `pred`
pub(crate) fn find_where(pred: impl Fn(&LogEntry) -> bool) -> Option<LogEntry> {
    let mut i = 0;
    while i < LOG_CAP {
        if i < log_len() && pred(&log(i)) {
            return Some(log(i));
        }
        i += 1;
    }
    None
}

pub(crate) fn set_send_fails(tag: u8, fails: bool) {
    unsafe {
        match tag {
            0 => SEND_FAILS[0] = fails,
            1 => SEND_FAILS[1] = fails,
            _ => SEND_FAILS[2] = fails,
        }
    }
}

pub(crate) fn send_fails(tag: u8) -> bool {
    unsafe {
        match tag {
            0 => SEND_FAILS[0],
            1 => SEND_FAILS[1],
            _ => SEND_FAILS[2],
        }
    }
}

/// A fresh sender for connection `tag`, registered with the log.
pub(crate) fn new_sender(tag: u8) -> UnboundedSender<VersionedMessage> {
    let (tx, rx) = unbounded();
    std::mem::forget(rx);
    unsafe {
        match tag {
            0 => SENDERS[0] = Some(tx.clone()),
            1 => SENDERS[1] = Some(tx.clone()),
            _ => SENDERS[2] = Some(tx.clone()),
        }
    }
    tx
}

pub(crate) fn conn(tag: u8) -> ConnectionId {
    ConnectionId(tag)
}

pub(crate) fn any_conn_tag() -> u8 {
    let t: u8 = kani::any();
    kani::assume((t as usize) < NCONN);
    t
}

pub(crate) fn any_version() -> ProtocolVersion {
    let minor: u32 = kani::any();
    kani::assume(minor >= 14 && minor <= 20);
    ProtocolVersion::new(1, minor)
}

// -------------------------------------------------------------------------------------------------
// small pools of ids: only the last byte varies, so equality stays cheap and collisions are common
// -------------------------------------------------------------------------------------------------

fn bytes(b: u8) -> [u8; 16] {
    [0, 0, 0, 0, 0, 0, 0, 0, 0, 0, 0, 0, 0, 0, 0, b]
}

pub(crate) fn obj_uuid(b: u8) -> ObjectUuid {
    unsafe { std::mem::transmute::<[u8; 16], ObjectUuid>(bytes(b)) }
}

pub(crate) fn svc_uuid(b: u8) -> ServiceUuid {
    unsafe { std::mem::transmute::<[u8; 16], ServiceUuid>(bytes(b)) }
}

pub(crate) fn obj_cookie(b: u8) -> ObjectCookie {
    unsafe { std::mem::transmute::<[u8; 16], ObjectCookie>(bytes(b)) }
}

pub(crate) fn svc_cookie(b: u8) -> ServiceCookie {
    unsafe { std::mem::transmute::<[u8; 16], ServiceCookie>(bytes(b)) }
}

pub(crate) fn chan_cookie(b: u8) -> ChannelCookie {
    unsafe { std::mem::transmute::<[u8; 16], ChannelCookie>(bytes(b)) }
}

pub(crate) fn listener_cookie(b: u8) -> BusListenerCookie {
    unsafe { std::mem::transmute::<[u8; 16], BusListenerCookie>(bytes(b)) }
}

pub(crate) fn last_byte<T: Copy>(id: T) -> u8 {
    assert!(std::mem::size_of::<T>() == 16);
    let b: [u8; 16] = unsafe { std::mem::transmute_copy(&id) };
    b[15]
}

/// pool index: ids are drawn from `0..n`
pub(crate) fn any_below(n: u8) -> u8 {
    let b: u8 = kani::any();
    kani::assume(b < n);
    b
}

// -------------------------------------------------------------------------------------------------
// RNG replacement: `*Cookie::new_v4` return the value the harness chose as "fresh" (it assumes the
// value is distinct from every cookie of the pre-state: freshness of UUIDv4 is an assumption)
// -------------------------------------------------------------------------------------------------

static mut FRESH: u8 = 0xf0;

pub(crate) fn set_fresh(b: u8) {
    unsafe { FRESH = b }
}

pub(crate) fn fresh() -> u8 {
    unsafe { FRESH }
}

pub(crate) fn fresh_obj_cookie() -> ObjectCookie {
    obj_cookie(fresh())
}

pub(crate) fn fresh_svc_cookie() -> ServiceCookie {
    svc_cookie(fresh())
}

pub(crate) fn fresh_chan_cookie() -> ChannelCookie {
    chan_cookie(fresh())
}

pub(crate) fn fresh_listener_cookie() -> BusListenerCookie {
    listener_cookie(fresh())
}
