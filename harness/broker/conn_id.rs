//! C09-a: connection id recycling on the real `conn_id::Inner` (compiled as `conn_id_real`).
#![cfg(any(verif_unit = "all", verif_unit = "conn_id", verif_unit = "conn_id_t"))]
#![allow(dead_code, unused_imports, missing_debug_implementations, missing_docs, unreachable_pub, unnameable_types)]
use super::Inner;

const N: usize = 3;

/// Arbitrary `Inner` with exactly K <= 3 free ids: free ids are `< next` and pairwise distinct.
/// K is a const so that the Vec has a concrete shape, and the Vec has spare capacity so that
/// `push` does not reallocate (a symbolic-length Vec, and the realloc path, made CBMC's solver
/// run out of memory at 13 GB); the harnesses are instantiated for K = 0..=3.
fn any_inner<const K: usize>() -> (Inner, [usize; N]) {
    let next: usize = kani::any();
    let ids: [usize; N] = kani::any();
    kani::assume(K < 1 || ids[0] < next);
    kani::assume(K < 2 || (ids[1] < next && ids[1] != ids[0]));
    kani::assume(K < 3 || (ids[2] < next && ids[2] != ids[0] && ids[2] != ids[1]));
    let mut free = Vec::with_capacity(N + 1);
    if K >= 1 {
        free.push(ids[0]);
    }
    if K >= 2 {
        free.push(ids[1]);
    }
    if K >= 3 {
        free.push(ids[2]);
    }
    (Inner { next, free }, ids)
}

fn is_free<const K: usize>(ids: &[usize; N], id: usize) -> bool {
    (K >= 1 && ids[0] == id) || (K >= 2 && ids[1] == id) || (K >= 3 && ids[2] == id)
}

fn vec_has(v: &[usize], id: usize) -> bool {
    let mut i = 0;
    while i < v.len() {
        if v[i] == id {
            return true;
        }
        i += 1;
    }
    false
}

fn acquire_fresh<const K: usize>() {
    let (mut inner, ids) = any_inner::<K>();
    let next0 = inner.next;
    kani::assume(next0 < usize::MAX);
    let id = inner.acquire();
    // handed-out ids are exactly those < next that are not free: the new id was not handed out
    assert!(id >= next0 || is_free::<K>(&ids, id), "acquire never returns an id that is still in use");
    // and afterwards it counts as handed out
    assert!(id < inner.next && !vec_has(&inner.free, id));
    if K == 0 {
        assert!(id == next0 && inner.next == next0 + 1 && inner.free.len() == 0);
    } else {
        assert!(id < next0 && inner.next == next0 && inner.free.len() == K - 1);
    }
    std::mem::forget(inner);
}

fn release_one<const K: usize>() {
    let (mut inner, ids) = any_inner::<K>();
    let id: usize = kani::any();
    // precondition = id is currently handed out
    kani::assume(id < inner.next && !is_free::<K>(&ids, id));
    let next0 = inner.next;
    inner.release(id); // the two debug_assert!s must hold
    // id is no longer handed out, every other id keeps its status
    assert!(id >= inner.next || vec_has(&inner.free, id));
    let other: usize = kani::any();
    kani::assume(other != id);
    let was_out = other < next0 && !is_free::<K>(&ids, other);
    let is_out = other < inner.next && !vec_has(&inner.free, other);
    assert!(was_out == is_out, "release affects only the released id");
    kani::cover!(inner.next < next0);
    kani::cover!(inner.next == next0);
    std::mem::forget(inner);
}

macro_rules! inst {
    ($($(#[$m:meta])* $name:ident = $f:ident::<$k:literal>;)*) => {$(
        $(#[$m])*
        #[kani::proof]
        #[kani::unwind(6)]
        fn $name() {
            $f::<$k>();
        }
    )*};
}

inst! {
    q_c09_conn_id_acquire_free0 = acquire_fresh::<0>;
    q_c09_conn_id_acquire_free1 = acquire_fresh::<1>;
    q_c09_conn_id_acquire_free3 = acquire_fresh::<3>;
    #[cfg(any(verif_unit = "all", verif_unit = "conn_id_t"))]
    t_c09_conn_id_acquire_free2 = acquire_fresh::<2>;
    q_c09_conn_id_release_free0 = release_one::<0>;
    q_c09_conn_id_release_free2 = release_one::<2>;
    #[cfg(any(verif_unit = "all", verif_unit = "conn_id_t"))]
    t_c09_conn_id_release_free1 = release_one::<1>;
}

#[cfg(verif_replay)]
include!("/verif/.cache/replay/conn_id_real__verif.rs");
