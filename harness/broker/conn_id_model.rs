//! Model of `crate::conn_id` used under `cfg(kani)`: an identity token with `Eq`/`Clone`/`Hash`.
//! The real `ConnectionId` is an `Arc` around an id that releases itself through a
//! `Mutex`-protected free list on drop; CBMC explodes on it as soon as a reference count becomes
//! symbolic (DESIGN.md section 1). Id recycling is checked on the real `conn_id::Inner` (C09-a).
#![allow(missing_debug_implementations, missing_docs, unnameable_types, unreachable_pub, dead_code)]

use std::cell::Cell;
use std::rc::Rc;

#[derive(Debug, Clone)]
pub(crate) struct ConnectionIdManager(Rc<Cell<u8>>);

impl ConnectionIdManager {
    pub(crate) fn new() -> Self {
        Self(Rc::new(Cell::new(0)))
    }

    pub(crate) fn acquire(&self) -> ConnectionId {
        let id = self.0.get();
        self.0.set(id.wrapping_add(1));
        ConnectionId(id)
    }
}

// `BrokerHandle` is `Send`; the model is only ever used single-threaded under Kani.
unsafe impl Send for ConnectionIdManager {}
unsafe impl Sync for ConnectionIdManager {}

#[derive(Debug, Clone, Copy, PartialEq, Eq, Hash)]
pub(crate) struct ConnectionId(pub(crate) u8);
