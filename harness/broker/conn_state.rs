//! C04-b / C02-b: `ConnectionState` bookkeeping, child of broker/conn_state.rs.
#![allow(dead_code, unused_imports, missing_debug_implementations, missing_docs, unreachable_pub, unnameable_types)]
use super::ConnectionState;
use crate::conn_id::ConnectionId;
use crate::verif::env::*;
use crate::verif_collections::{at, at_mut, HashMap, HashSet, CAP};
use aldrin_core::{BusListenerCookie, ChannelCookie, ObjectCookie, ProtocolVersion, ServiceCookie};

// ---- accessors ----
pub(crate) fn objects(c: &ConnectionState) -> &HashSet<ObjectCookie> {
    &c.objects
}
pub(crate) fn objects_mut(c: &mut ConnectionState) -> &mut HashSet<ObjectCookie> {
    &mut c.objects
}
pub(crate) fn events(c: &ConnectionState) -> &HashMap<ServiceCookie, HashSet<u32>> {
    &c.events
}
pub(crate) fn events_mut(c: &mut ConnectionState) -> &mut HashMap<ServiceCookie, HashSet<u32>> {
    &mut c.events
}
pub(crate) fn all_events(c: &ConnectionState) -> &HashSet<ServiceCookie> {
    &c.all_events
}
pub(crate) fn all_events_mut(c: &mut ConnectionState) -> &mut HashSet<ServiceCookie> {
    &mut c.all_events
}
pub(crate) fn subscriptions(c: &ConnectionState) -> &HashSet<ServiceCookie> {
    &c.subscriptions
}
pub(crate) fn subscriptions_mut(c: &mut ConnectionState) -> &mut HashSet<ServiceCookie> {
    &mut c.subscriptions
}
pub(crate) fn senders(c: &ConnectionState) -> &HashSet<ChannelCookie> {
    &c.senders
}
pub(crate) fn senders_mut(c: &mut ConnectionState) -> &mut HashSet<ChannelCookie> {
    &mut c.senders
}
pub(crate) fn receivers(c: &ConnectionState) -> &HashSet<ChannelCookie> {
    &c.receivers
}
pub(crate) fn receivers_mut(c: &mut ConnectionState) -> &mut HashSet<ChannelCookie> {
    &mut c.receivers
}
pub(crate) fn bus_listeners(c: &ConnectionState) -> &HashSet<BusListenerCookie> {
    &c.bus_listeners
}
pub(crate) fn bus_listeners_mut(c: &mut ConnectionState) -> &mut HashSet<BusListenerCookie> {
    &mut c.bus_listeners
}
pub(crate) fn calls(c: &ConnectionState) -> &HashMap<u32, (u32, ConnectionId)> {
    &c.calls
}
pub(crate) fn calls_mut(c: &mut ConnectionState) -> &mut HashMap<u32, (u32, ConnectionId)> {
    &mut c.calls
}

/// New connection state for tag `tag` whose sends go to the harness log.
pub(crate) fn new_state(tag: u8, version: ProtocolVersion) -> ConnectionState {
    ConnectionState::new(version, new_sender(tag))
}

/// `is_empty` of every per-connection collection.
pub(crate) fn is_blank(c: &ConnectionState) -> bool {
    c.objects.is_empty()
        && c.events.is_empty()
        && c.all_events.is_empty()
        && c.subscriptions.is_empty()
        && c.senders.is_empty()
        && c.receivers.is_empty()
        && c.bus_listeners.is_empty()
        && c.calls.is_empty()
}

#[cfg(any(verif_unit = "all", verif_unit = "conn_state", verif_unit = "conn_state_t"))]
mod harnesses {
    use super::*;

    fn any_event_set() -> HashSet<u32> {
        let mut s = HashSet::new();
        if kani::any() {
            s.slots[0] = Some(0);
        }
        if kani::any() {
            s.slots[1] = Some(1);
        }
        s
    }

    /// events map over a pool of two service cookies, no empty sets stored
    fn any_conn_state() -> ConnectionState {
        let mut c = new_state(0, any_version());
        let mut i = 0u8;
        while i < 2 {
            if kani::any() {
                let set = any_event_set();
                kani::assume(!set.is_empty());
                let slot: usize = kani::any();
                kani::assume(slot < CAP && at(&c.events.slots, slot).is_none());
                *at_mut(&mut c.events.slots, slot) = Some((svc_cookie(i), set));
            }
            if kani::any() {
                c.all_events.insert(svc_cookie(i));
            }
            if kani::any() {
                c.subscriptions.insert(svc_cookie(i));
            }
            i += 1;
        }
        c
    }

    fn has_event(c: &ConnectionState, s: u8, e: u32) -> bool {
        c.events.get(&svc_cookie(s)).map(|x| x.contains(&e)).unwrap_or(false)
    }

    #[kani::proof]
    #[kani::unwind(20)]
    fn q_c04_conn_state_event_subscriptions() {
        let mut c = any_conn_state();
        let s = any_below(2);
        let e: u32 = any_below(2) as u32;
        let os = any_below(2);
        let oe: u32 = any_below(2) as u32;
        // definition of "subscribed to an event"
        assert!(c.is_subscribed_to_event(svc_cookie(s), e) == (c.all_events.contains(&svc_cookie(s)) || has_event(&c, s, e)));
        let o_ev0 = has_event(&c, os, oe);
        let o_all0 = c.all_events.contains(&svc_cookie(os));
        let o_sub0 = c.subscriptions.contains(&svc_cookie(os));
        let op: u8 = kani::any();
        kani::assume(op < 5);
        match op {
            0 => {
                c.subscribe_event(svc_cookie(s), e);
                assert!(has_event(&c, s, e));
                assert!(has_event(&c, os, oe) == (o_ev0 || (os == s && oe == e)));
                assert!(c.all_events.contains(&svc_cookie(os)) == o_all0);
            }
            1 => {
                c.unsubscribe_event(svc_cookie(s), e);
                assert!(!has_event(&c, s, e));
                assert!(has_event(&c, os, oe) == (o_ev0 && !(os == s && oe == e)));
                assert!(c.all_events.contains(&svc_cookie(os)) == o_all0);
            }
            2 => {
                c.subscribe_all_events(svc_cookie(s));
                assert!(c.all_events.contains(&svc_cookie(os)) == (o_all0 || os == s));
                assert!(has_event(&c, os, oe) == o_ev0);
            }
            3 => {
                c.unsubscribe_all_events(svc_cookie(s));
                assert!(c.all_events.contains(&svc_cookie(os)) == (o_all0 && os != s));
                assert!(has_event(&c, os, oe) == o_ev0);
            }
            _ => {
                // service destroyed: event and service subscriptions of that service end
                c.unsubscribe_all(svc_cookie(s));
                assert!(has_event(&c, os, oe) == (o_ev0 && os != s));
                assert!(c.subscriptions.contains(&svc_cookie(os)) == (o_sub0 && os != s));
            }
        }
        // no empty event set is stored
        let mut i = 0;
        while i < CAP {
            if let Some((_, set)) = &c.events.slots[i] {
                assert!(!set.is_empty());
            }
            i += 1;
        }
        std::mem::forget(c);
    }

    #[kani::proof]
    #[kani::unwind(20)]
    fn q_c02_conn_state_calls() {
        let mut c = new_state(0, any_version());
        // up to two pending calls with arbitrary serials
        let s1: u32 = kani::any();
        let s2: u32 = kani::any();
        kani::assume(s1 != s2);
        let have1: bool = kani::any();
        let have2: bool = kani::any();
        let b1: u32 = kani::any();
        let b2: u32 = kani::any();
        if have1 {
            assert!(c.add_call(s1, b1, ConnectionId(1)));
        }
        if have2 {
            assert!(c.add_call(s2, b2, ConnectionId(2)));
        }
        let s: u32 = kani::any();
        let b: u32 = kani::any();
        let dup = (have1 && s == s1) || (have2 && s == s2);
        let ok = c.add_call(s, b, ConnectionId(1));
        assert!(ok == !dup, "a caller serial that is still pending is refused, any other is recorded");
        // existing entries are never overwritten
        if have1 {
            assert!(c.call_data(s1).map(|(x, id)| (x, *id)) == Some((b1, ConnectionId(1))));
        }
        if have2 {
            assert!(c.call_data(s2).map(|(x, id)| (x, *id)) == Some((b2, ConnectionId(2))));
        }
        if ok {
            assert!(c.call_data(s).map(|(x, id)| (x, *id)) == Some((b, ConnectionId(1))));
            c.remove_call(s);
            assert!(c.call_data(s).is_none());
        }
        kani::cover!(dup);
        kani::cover!(ok && have1 && have2);
        std::mem::forget(c);
    }

    #[cfg(verif_replay)]
    include!("/verif/.cache/replay/broker__conn_state__verif__harnesses.rs");
}
