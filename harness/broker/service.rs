//! C04-a: `Service` subscription bookkeeping (0<->1 transitions), child of broker/service.rs.
#![allow(dead_code, unused_imports, missing_debug_implementations, missing_docs, unreachable_pub, unnameable_types)]
use super::Service;
use crate::conn_id::ConnectionId;
use crate::verif::env::*;
use crate::verif_collections::{at, at_mut, HashMap, HashSet, CAP};
use aldrin_core::{ObjectCookie, ServiceCookie};

// ---- accessors for the handler lemmas (fields are private to this module) ----
pub(crate) fn events(s: &Service) -> &HashMap<u32, HashSet<ConnectionId>> {
    &s.events
}
pub(crate) fn all_events(s: &Service) -> &HashSet<ConnectionId> {
    &s.all_events
}
pub(crate) fn subscriptions(s: &Service) -> &HashSet<ConnectionId> {
    &s.subscriptions
}
pub(crate) fn function_calls(s: &Service) -> &HashSet<u32> {
    &s.function_calls
}
pub(crate) fn events_mut(s: &mut Service) -> &mut HashMap<u32, HashSet<ConnectionId>> {
    &mut s.events
}
pub(crate) fn all_events_mut(s: &mut Service) -> &mut HashSet<ConnectionId> {
    &mut s.all_events
}
pub(crate) fn subscriptions_mut(s: &mut Service) -> &mut HashSet<ConnectionId> {
    &mut s.subscriptions
}
pub(crate) fn function_calls_mut(s: &mut Service) -> &mut HashSet<u32> {
    &mut s.function_calls
}

/// An arbitrary set of connection ids (tags 0..NCONN) in arbitrary slots.
pub(crate) fn any_conn_set() -> HashSet<ConnectionId> {
    let mut s = HashSet::new();
    let mut i = 0;
    while i < CAP {
        if kani::any() {
            let t = any_conn_tag();
            // set semantics: no duplicates
            let mut j = 0;
            while j < i {
                kani::assume(s.slots[j] != Some(ConnectionId(t)));
                j += 1;
            }
            s.slots[i] = Some(ConnectionId(t));
        }
        i += 1;
    }
    s
}

pub(crate) fn set_has(s: &HashSet<ConnectionId>, t: u8) -> bool {
    s.contains(&ConnectionId(t))
}

/// Event ids: a pool of two (0, 1) so that collisions are common.
pub(crate) fn any_event() -> u32 {
    let e: u32 = kani::any();
    kani::assume(e < 2);
    e
}

/// Arbitrary `Service` with up to two event entries. Invariant: no empty subscriber set is
/// stored, event keys are distinct.
pub(crate) fn any_service(cookie: ServiceCookie, obj: ObjectCookie) -> Service {
    let mut s = Service::new(cookie, obj);
    let mut i = 0;
    while i < 2 {
        if kani::any() {
            let subs = any_conn_set();
            kani::assume(!subs.is_empty());
            let e = i as u32; // distinct keys by construction, slots arbitrary below
            let slot: usize = kani::any();
            kani::assume(slot < CAP && at(&s.events.slots, slot).is_none());
            *at_mut(&mut s.events.slots, slot) = Some((e, subs));
        }
        i += 1;
    }
    s.all_events = any_conn_set();
    s.subscriptions = any_conn_set();
    s
}

pub(crate) fn inv_no_empty_sets(s: &Service) -> bool {
    let mut i = 0;
    while i < CAP {
        if let Some((_, subs)) = &s.events.slots[i] {
            if subs.is_empty() {
                return false;
            }
        }
        i += 1;
    }
    true
}

fn subscribers(s: &Service, e: u32) -> usize {
    s.events.get(&e).map(|x| x.len()).unwrap_or(0)
}

fn is_sub(s: &Service, e: u32, t: u8) -> bool {
    s.events.get(&e).map(|x| set_has(x, t)).unwrap_or(false)
}

#[cfg(any(verif_unit = "all", verif_unit = "service", verif_unit = "service_t"))]
mod harnesses {
    use super::*;

    #[kani::proof]
    #[kani::unwind(5)]
    fn q_c04_service_subscribe_event() {
        let mut s = any_service(svc_cookie(1), obj_cookie(1));
        let e = any_event();
        let t = any_conn_tag();
        let other_e = any_event();
        let other_t = any_conn_tag();
        let n0 = subscribers(&s, e);
        let was_sub = is_sub(&s, e, t);
        let other0 = is_sub(&s, other_e, other_t);
        kani::assume(n0 < CAP || was_sub);
        let first = s.subscribe_event(e, ConnectionId(t));
        assert!(first == (n0 == 0), "owner is told to start exactly on the 0 -> 1 transition");
        assert!(is_sub(&s, e, t));
        assert!(subscribers(&s, e) == if was_sub { n0 } else { n0 + 1 });
        if other_e != e || other_t != t {
            assert!(is_sub(&s, other_e, other_t) == other0, "other subscriptions untouched");
        }
        assert!(inv_no_empty_sets(&s));
        kani::cover!(first);
        kani::cover!(!first && !was_sub);
        std::mem::forget(s);
    }

    #[kani::proof]
    #[kani::unwind(5)]
    fn q_c04_service_unsubscribe_event() {
        let mut s = any_service(svc_cookie(1), obj_cookie(1));
        let e = any_event();
        let t = any_conn_tag();
        let other_e = any_event();
        let other_t = any_conn_tag();
        let n0 = subscribers(&s, e);
        let was_sub = is_sub(&s, e, t);
        let other0 = is_sub(&s, other_e, other_t);
        let last = s.unsubscribe_event(e, &ConnectionId(t));
        assert!(last == (was_sub && n0 == 1), "owner is told to stop exactly on the 1 -> 0 transition");
        assert!(!is_sub(&s, e, t));
        assert!(subscribers(&s, e) == if was_sub { n0 - 1 } else { n0 });
        if other_e != e || other_t != t {
            assert!(is_sub(&s, other_e, other_t) == other0);
        }
        assert!(inv_no_empty_sets(&s), "no empty subscriber set stays behind (the next subscribe must count as first)");
        // and therefore a following subscribe by anyone is reported as first iff nobody is left
        let t2 = any_conn_tag();
        let n1 = subscribers(&s, e);
        let again = s.subscribe_event(e, ConnectionId(t2));
        assert!(again == (n1 == 0));
        kani::cover!(last);
        kani::cover!(!last && was_sub);
        kani::cover!(last && again);
        std::mem::forget(s);
    }

    #[kani::proof]
    #[kani::unwind(5)]
    fn q_c04_service_all_events() {
        let mut s = any_service(svc_cookie(1), obj_cookie(1));
        let t = any_conn_tag();
        let n0 = s.all_events.len();
        let was = set_has(&s.all_events, t);
        if kani::any() {
            kani::assume(n0 < CAP || was);
            let first = s.subscribe_all_events(ConnectionId(t));
            assert!(first == (n0 == 0));
            assert!(set_has(&s.all_events, t) && s.all_events.len() == if was { n0 } else { n0 + 1 });
            kani::cover!(first);
        } else {
            let last = s.unsubscribe_all_events(&ConnectionId(t));
            assert!(last == (was && n0 == 1));
            assert!(!set_has(&s.all_events, t) && s.all_events.len() == if was { n0 - 1 } else { n0 });
            kani::cover!(last);
            kani::cover!(!last && was);
        }
        assert!(inv_no_empty_sets(&s));
        std::mem::forget(s);
    }

    /// `subscribed_conn_ids`: every connection subscribed to an event or to the service, once.
    #[kani::proof]
    #[kani::unwind(8)]
    fn q_c04_service_subscribed_conn_ids() {
        let s = any_service(svc_cookie(1), obj_cookie(1));
        let mut count = [0u8; NCONN];
        // explicit bound instead of a `for` loop: an implementation that yields a connection more
        // than once must fail the assertions below, not the unwinding bound of the harness
        let mut it = s.subscribed_conn_ids();
        let mut n = 0;
        while n < NCONN + 1 {
            match it.next() {
                Some(c) => match c.0 {
                    0 => count[0] += 1,
                    1 => count[1] += 1,
                    _ => count[2] += 1,
                },
                None => break,
            }
            n += 1;
        }
        assert!(n <= NCONN, "never more entries than there are connections");
        std::mem::forget(it);
        let mut t = 0u8;
        while (t as usize) < NCONN {
            let expect = is_sub(&s, 0, t) || is_sub(&s, 1, t) || set_has(&s.subscriptions, t);
            assert!(count[t as usize] == expect as u8, "each subscribed connection exactly once, nobody else");
            t += 1;
        }
        std::mem::forget(s);
    }

    #[cfg(verif_replay)]
    include!("/verif/.cache/replay/broker__service__verif__harnesses.rs");
}
