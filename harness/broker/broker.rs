//! One-step lemmas on the broker's request handlers. Child module of broker/src/broker.rs, so the
//! private handlers are called directly (not through `handle_event`) on small symbolic states.
//! `cfg(kani)` only.
#![allow(dead_code, unused_imports, unused_variables, missing_debug_implementations, missing_docs, unreachable_pub, unnameable_types)]

use super::channel::verif as chv;
use super::conn_state::verif as csv;
use super::object::verif as obv;
use super::service::verif as svv;
use super::state::verif as stv;
use super::*;
use crate::bus_listener::verif as blv;
use crate::serial_map::verif as smv;
use crate::verif::env::*;
use crate::verif_collections::CAP;

pub(crate) struct World {
    pub b: Broker,
    pub st: State,
}

pub(crate) fn new_world() -> World {
    let mut b = Broker::new();
    let h = b.handle.take();
    std::mem::forget(h);
    World { b, st: State::new() }
}

/// Connection `tag` with an arbitrary negotiated version; its peer may be gone (sends fail).
pub(crate) fn add_conn(w: &mut World, tag: u8) {
    let v = any_version();
    w.b.conns.insert(conn(tag), csv::new_state(tag, v));
    set_send_fails(tag, kani::any());
}

pub(crate) fn add_conn_ok(w: &mut World, tag: u8) {
    let v = any_version();
    w.b.conns.insert(conn(tag), csv::new_state(tag, v));
    set_send_fails(tag, false);
}

pub(crate) fn has_conn(w: &World, tag: u8) -> bool {
    w.b.conns.contains_key(&conn(tag))
}

pub(crate) fn version_of(w: &World, tag: u8) -> ProtocolVersion {
    w.b.conns.get(&conn(tag)).unwrap().version()
}

/// Live object `uuid byte u`, cookie byte `c`, owned by connection `owner` (which must exist).
pub(crate) fn add_object(w: &mut World, u: u8, c: u8, owner: u8) {
    w.b.obj_uuids.insert(obj_cookie(c), obj_uuid(u));
    w.b.objs.insert(obj_uuid(u), Object::new(conn(owner), obj_cookie(c)));
    csv::objects_mut(w.b.conns.get_mut(&conn(owner)).unwrap()).insert(obj_cookie(c));
}

/// Live service on object (u, c): service uuid byte `su`, cookie byte `k`.
pub(crate) fn add_service(w: &mut World, u: u8, c: u8, su: u8, k: u8, info: ServiceInfo) {
    let oid = ObjectId::new(obj_uuid(u), obj_cookie(c));
    w.b.svc_uuids.insert(svc_cookie(k), (oid, svc_uuid(su), info));
    w.b.svcs.insert((obj_uuid(u), svc_uuid(su)), Service::new(svc_cookie(k), obj_cookie(c)));
    obv::svcs_mut(w.b.objs.get_mut(&obj_uuid(u)).unwrap()).insert(svc_cookie(k));
}

pub(crate) fn any_info() -> ServiceInfo {
    let mut i = ServiceInfo::new(kani::any());
    if kani::any() {
        i = i.set_subscribe_all(kani::any());
    }
    i
}

// -------------------------------------------------------------------------------------------------
// registry invariant (C03)
// -------------------------------------------------------------------------------------------------

/// Cross-references between `objs`, `obj_uuids`, `svcs`, `svc_uuids` and the owners' `objects`.
pub(crate) fn inv_reg(b: &Broker) -> bool {
    let mut ok = true;
    let mut i = 0;
    while i < CAP {
        if let Some((uuid, obj)) = &b.objs.slots[i] {
            ok &= b.obj_uuids.get(&obj.cookie()) == Some(uuid);
            match b.conns.get(obj.conn_id()) {
                Some(c) => ok &= csv::objects(c).contains(&obj.cookie()),
                None => ok = false,
            }
            let mut j = 0;
            while j < CAP {
                if let Some(k) = &obv::svcs(obj).slots[j] {
                    match b.svc_uuids.get(k) {
                        Some((oid, su, _)) => {
                            ok &= oid.uuid == *uuid && oid.cookie == obj.cookie();
                            ok &= b.svcs.get(&(*uuid, *su)).map(|s| s.cookie() == *k).unwrap_or(false);
                        }
                        None => ok = false,
                    }
                }
                j += 1;
            }
        }
        if let Some((cookie, uuid)) = &b.obj_uuids.slots[i] {
            ok &= b.objs.get(uuid).map(|o| o.cookie() == *cookie).unwrap_or(false);
        }
        if let Some((k, (oid, su, _))) = &b.svc_uuids.slots[i] {
            match b.objs.get(&oid.uuid) {
                Some(o) => ok &= o.cookie() == oid.cookie && obv::svcs(o).contains(k),
                None => ok = false,
            }
            ok &= b
                .svcs
                .get(&(oid.uuid, *su))
                .map(|s| s.cookie() == *k && s.object_cookie() == oid.cookie)
                .unwrap_or(false);
        }
        if let Some(((u, su), svc)) = &b.svcs.slots[i] {
            ok &= b
                .svc_uuids
                .get(&svc.cookie())
                .map(|(oid, su2, _)| oid.uuid == *u && su2 == su && oid.cookie == svc.object_cookie())
                .unwrap_or(false);
        }
        if let Some((cid, c)) = &b.conns.slots[i] {
            let mut j = 0;
            while j < CAP {
                if let Some(oc) = &csv::objects(c).slots[j] {
                    ok &= b
                        .obj_uuids
                        .get(oc)
                        .and_then(|u| b.objs.get(u))
                        .map(|o| o.conn_id() == cid && o.cookie() == *oc)
                        .unwrap_or(false);
                }
                j += 1;
            }
        }
        i += 1;
    }
    ok
}

/// A small registry world (fits CAP = 2): connections 0 and 1 (both present, each peer possibly
/// gone), up to `max_objs` (<= 2) objects with uuids from the pool {0,1} (distinct), cookies
/// {10,11}, symbolic owners; up to `max_svcs` (<= 2) services on them with service uuids from
/// {0,1}, cookies {20,21}.
pub(crate) fn registry_world(max_objs: u8, max_svcs: u8) -> World {
    let mut w = new_world();
    add_conn(&mut w, 0);
    add_conn(&mut w, 1);
    let mut have = [false; 2];
    if max_objs >= 1 && kani::any() {
        // the first object may carry either uuid
        let u = any_below(2);
        add_object(&mut w, u, 10 + u, any_below(2));
        if u == 0 {
            have[0] = true;
        } else {
            have[1] = true;
        }
        if max_objs >= 2 && kani::any() {
            let u2 = 1 - u;
            add_object(&mut w, u2, 10 + u2, any_below(2));
            have[0] = true;
            have[1] = true;
        }
    }
    let mut used: Option<(u8, u8)> = None;
    let mut j = 0u8;
    while j < 2 {
        if j < max_svcs && kani::any() {
            let o = any_below(2);
            kani::assume(if o == 0 { have[0] } else { have[1] });
            let su = any_below(2);
            // (object, service uuid) pairs are unique
            if let Some(p) = used {
                kani::assume(p != (o, su));
            }
            used = Some((o, su));
            add_service(&mut w, o, 10 + o, su, 20 + j, any_info());
        }
        j += 1;
    }
    // the cookie the RNG will return next: anything that is not in use
    let f: u8 = kani::any();
    kani::assume(f != 10 && f != 11 && f != 20 && f != 21);
    set_fresh(f);
    w
}

pub(crate) fn obj_live(w: &World, u: u8) -> bool {
    w.b.objs.contains_key(&obj_uuid(u))
}

pub(crate) fn obj_owner(w: &World, u: u8) -> Option<u8> {
    w.b.objs.get(&obj_uuid(u)).map(|o| o.conn_id().0)
}

pub(crate) fn svc_live(w: &World, k: u8) -> bool {
    w.b.svc_uuids.contains_key(&svc_cookie(k))
}

// =================================================================================================
// C03: registry lemmas
// =================================================================================================
#[cfg(any(verif_unit = "all", verif_unit = "reg_object", verif_unit = "reg_object_t"))]
mod reg_object {
    use super::*;

    #[kani::proof]
    #[kani::unwind(18)]
    #[kani::stub(aldrin_core::ObjectCookie::new_v4, fresh_obj_cookie)]
    fn q_c03_c11_create_object() {
        let mut w = registry_world(1, 0);
        let who = any_below(3); // 2 = a connection the broker does not know
        let u = any_below(2);
        let serial: u32 = kani::any();
        let live0 = obj_live(&w, u);
        let owner0 = obj_owner(&w, u);
        let n_objs0 = w.b.objs.len();
        let r = w.b.create_object(&mut w.st, &conn(who), CreateObject { serial, uuid: obj_uuid(u) });
        if who == 2 {
            assert!(r.is_ok() && log_len() == 0 && w.b.objs.len() == n_objs0, "unknown sender: ignored");
        } else if send_fails(who) {
            assert!(r.is_err() && log_len() == 0, "the requester is gone: close it");
            // nothing may stay behind that the teardown of `who` would not remove
            assert!(inv_reg(&w.b), "registry stays consistent when the reply cannot be delivered");
            assert!(obj_live(&w, u) == live0 && obj_owner(&w, u) == owner0);
        } else {
            assert!(r.is_ok() && log_len() == 1 && log(0).to == who, "exactly one reply, to the requester");
            let rep = log(0);
            assert!(rep.kind == K::CreateObjectReply && rep.serial == serial);
            if rep.code == 0 {
                assert!(!live0, "ok exactly when no live object has this uuid");
                assert!(rep.cookie == fresh(), "cookie comes from the RNG (fresh by assumption)");
                assert!(obj_owner(&w, u) == Some(who) && w.b.objs.len() == n_objs0 + 1);
                let q = stv::create_object(&w.st);
                assert!(q.len() == 1 && q[0] == ObjectId::new(obj_uuid(u), obj_cookie(fresh())), "one creation event queued");
            } else {
                assert!(live0 && obj_owner(&w, u) == owner0 && w.b.objs.len() == n_objs0);
                assert!(stv::create_object(&w.st).is_empty());
            }
            assert!(inv_reg(&w.b));
        }
        kani::cover!(who < 2 && !send_fails(who) && live0);
        kani::cover!(who < 2 && !send_fails(who) && !live0);
        kani::cover!(who < 2 && send_fails(who) && !live0);
        std::mem::forget(w);
    }

    #[kani::proof]
    #[kani::unwind(18)]
    fn q_c03_c11_destroy_object() {
        let mut w = registry_world(1, 2);
        let who = any_below(3);
        let c: u8 = kani::any();
        kani::assume(c == 10 || c == 11 || c == 12);
        let serial: u32 = kani::any();
        let u = c - 10;
        let live0 = c < 12 && obj_live(&w, u);
        let owner0 = if live0 { obj_owner(&w, u) } else { None };
        let other = 1 - (u & 1);
        let other_live0 = obj_live(&w, other);
        let svc20_on_u = w.b.svc_uuids.get(&svc_cookie(20)).map(|(oid, _, _)| oid.uuid == obj_uuid(u)).unwrap_or(false);
        let svc21_on_u = w.b.svc_uuids.get(&svc_cookie(21)).map(|(oid, _, _)| oid.uuid == obj_uuid(u)).unwrap_or(false);
        let svc20_live0 = svc_live(&w, 20);
        let svc21_live0 = svc_live(&w, 21);
        let r = w.b.destroy_object(&mut w.st, &conn(who), DestroyObject { serial, cookie: obj_cookie(c) });
        if who == 2 {
            assert!(r.is_ok() && log_len() == 0);
        } else if send_fails(who) {
            assert!(r.is_err() && log_len() == 0);
            assert!(inv_reg(&w.b));
            assert!((c < 12 && obj_live(&w, u)) == live0, "nothing destroyed when the reply cannot be delivered");
        } else {
            assert!(r.is_ok() && log_len() == 1 && log(0).to == who);
            let rep = log(0);
            assert!(rep.kind == K::DestroyObjectReply && rep.serial == serial);
            match rep.code {
                0 => {
                    assert!(live0 && owner0 == Some(who), "only the owner can destroy a live object");
                    assert!(!obj_live(&w, u), "object gone");
                    assert!(!(svc20_on_u && svc_live(&w, 20)) && !(svc21_on_u && svc_live(&w, 21)), "all its services are gone");
                    let q = stv::destroy_object(&w.st);
                    assert!(q.len() == 1 && q[0] == ObjectId::new(obj_uuid(u), obj_cookie(c)));
                    let nsvc = (svc20_on_u as usize) + (svc21_on_u as usize);
                    assert!(stv::destroy_service(&w.st).len() == nsvc, "one destruction event per service");
                }
                1 => assert!(!live0 && c >= 10),
                _ => {
                    assert!(rep.code == 2 && live0 && owner0 != Some(who));
                    assert!(obj_live(&w, u));
                }
            }
            // services of other objects are untouched
            assert!(svc20_on_u || svc_live(&w, 20) == svc20_live0);
            assert!(svc21_on_u || svc_live(&w, 21) == svc21_live0);
            assert!(obj_live(&w, other) == other_live0 || other == u);
            assert!(inv_reg(&w.b));
        }
        kani::cover!(who < 2 && !send_fails(who) && live0 && owner0 == Some(who) && svc20_on_u && svc21_on_u);
        kani::cover!(who < 2 && !send_fails(who) && live0 && owner0 != Some(who));
        kani::cover!(who < 2 && !send_fails(who) && !live0);
        std::mem::forget(w);
    }

    #[cfg(verif_replay)]
    include!("/verif/.cache/replay/broker__verif__reg_object.rs");
}

#[cfg(any(verif_unit = "all", verif_unit = "reg_service", verif_unit = "reg_service_t"))]
mod reg_service {
    use super::*;

    /// outcome the state dictates, in the code's order InvalidObject > DuplicateService > ForeignObject
    fn expected_create_service(w: &World, who: u8, oc: u8, su: u8) -> u8 {
        // 0 ok, 1 invalid object, 2 duplicate, 3 foreign
        let Some(u) = w.b.obj_uuids.get(&obj_cookie(oc)).copied() else { return 1 };
        if w.b.svcs.contains_key(&(u, svc_uuid(su))) {
            return 2;
        }
        if w.b.objs.get(&u).unwrap().conn_id().0 != who {
            return 3;
        }
        0
    }

    #[kani::proof]
    #[kani::unwind(18)]
    #[kani::stub(aldrin_core::ServiceCookie::new_v4, fresh_svc_cookie)]
    fn q_c03_c11_create_service() {
        let mut w = registry_world(2, 1);
        let who = any_below(2);
        set_send_fails(who, false);
        let oc: u8 = kani::any();
        kani::assume(oc >= 10 && oc <= 12);
        let su = any_below(2);
        let serial: u32 = kani::any();
        let version: u32 = kani::any();
        let expect = expected_create_service(&w, who, oc, su);
        let n_svcs0 = w.b.svcs.len();
        let r = w.b.create_service(&mut w.st, &conn(who), CreateService { serial, object_cookie: obj_cookie(oc), uuid: svc_uuid(su), version });
        assert!(r.is_ok() && log_len() == 1 && log(0).to == who, "exactly one reply, to the requester");
        let rep = log(0);
        assert!(rep.kind == K::CreateServiceReply && rep.serial == serial);
        // digest codes: 0 ok, 1 duplicate, 2 invalid object, 3 foreign; expected_create_service: 0 ok, 1 invalid, 2 duplicate, 3 foreign
        match rep.code {
            0 => {
                let k = svc_cookie(fresh());
                assert!(expect == 0, "ok exactly when the object is live, owned by the requester and has no such service");
                assert!(rep.cookie == fresh());
                assert!(w.b.svcs.len() == n_svcs0 + 1);
                let (oid, su2, info) = w.b.svc_uuids.get(&k).unwrap();
                assert!(oid.cookie == obj_cookie(oc) && *su2 == svc_uuid(su) && info.version() == version);
                let q = stv::create_service(&w.st);
                assert!(q.len() == 1 && q[0].cookie == k && q[0].uuid == svc_uuid(su) && q[0].object_id == *oid);
            }
            2 => assert!(expect == 1),
            1 => assert!(expect == 2),
            _ => assert!(rep.code == 3 && expect == 3),
        }
        if expect != 0 {
            assert!(w.b.svcs.len() == n_svcs0 && stv::create_service(&w.st).is_empty());
        }
        assert!(inv_reg(&w.b));
        kani::cover!(expect == 0);
        kani::cover!(expect == 1);
        kani::cover!(expect == 2);
        kani::cover!(expect == 3);
        std::mem::forget(w);
    }

    /// When the reply cannot be delivered nothing may stay behind.
    #[kani::proof]
    #[kani::unwind(18)]
    #[kani::stub(aldrin_core::ServiceCookie::new_v4, fresh_svc_cookie)]
    fn q_c03_c11_create_service_reply_fails() {
        let mut w = registry_world(2, 1);
        let who = any_below(2);
        set_send_fails(who, true);
        let oc: u8 = kani::any();
        kani::assume(oc >= 10 && oc <= 12);
        let su = any_below(2);
        let n_svcs0 = w.b.svcs.len();
        let r = w.b.create_service(&mut w.st, &conn(who), CreateService { serial: kani::any(), object_cookie: obj_cookie(oc), uuid: svc_uuid(su), version: kani::any() });
        assert!(r.is_err() && log_len() == 0);
        assert!(w.b.svcs.len() == n_svcs0 && w.b.svc_uuids.len() == n_svcs0, "no service is registered for a requester that is gone");
        assert!(inv_reg(&w.b));
        std::mem::forget(w);
    }

    #[kani::proof]
    #[kani::unwind(18)]
    fn q_c03_c11_destroy_service() {
        let mut w = registry_world(2, 2);
        let who = any_below(3);
        let k: u8 = kani::any();
        kani::assume(k >= 20 && k <= 22);
        let serial: u32 = kani::any();
        let live0 = svc_live(&w, k);
        let owner0 = w.b.svc_uuids.get(&svc_cookie(k)).map(|(oid, _, _)| w.b.objs.get(&oid.uuid).unwrap().conn_id().0);
        let other = if k == 20 { 21 } else { 20 };
        let other_live0 = svc_live(&w, other);
        let n_objs0 = w.b.objs.len();
        let r = w.b.destroy_service(&mut w.st, &conn(who), DestroyService { serial, cookie: svc_cookie(k) });
        if who == 2 {
            assert!(r.is_ok() && log_len() == 0);
        } else if send_fails(who) {
            assert!(r.is_err() && log_len() == 0 && svc_live(&w, k) == live0);
        } else {
            assert!(r.is_ok() && log_len() == 1 && log(0).to == who);
            let rep = log(0);
            assert!(rep.kind == K::DestroyServiceReply && rep.serial == serial);
            match rep.code {
                0 => {
                    assert!(live0 && owner0 == Some(who), "only the owner of the object can destroy its service");
                    assert!(!svc_live(&w, k));
                    let q = stv::destroy_service(&w.st);
                    assert!(q.len() == 1 && q[0].cookie == svc_cookie(k));
                }
                1 => assert!(!live0),
                _ => assert!(rep.code == 2 && live0 && owner0 != Some(who) && svc_live(&w, k)),
            }
            assert!(svc_live(&w, other) == other_live0, "other services untouched");
            assert!(w.b.objs.len() == n_objs0, "objects untouched");
        }
        assert!(inv_reg(&w.b));
        kani::cover!(who < 2 && !send_fails(who) && live0 && owner0 == Some(who));
        kani::cover!(who < 2 && !send_fails(who) && live0 && owner0 != Some(who));
        std::mem::forget(w);
    }

    /// Queries succeed exactly while the service is live.
    #[kani::proof]
    #[kani::unwind(18)]
    fn q_c03_c11_query_service_version() {
        let mut w = registry_world(1, 1);
        let who = any_below(2);
        set_send_fails(who, false);
        let k: u8 = kani::any();
        kani::assume(k >= 20 && k <= 21);
        let serial: u32 = kani::any();
        let live = w.b.svc_uuids.get(&svc_cookie(k)).map(|(_, _, i)| i.version());
        let r = w.b.query_service_version(&conn(who), QueryServiceVersion { serial, cookie: svc_cookie(k) });
        assert!(r.is_ok() && log_len() == 1 && log(0).to == who);
        let rep = log(0);
        assert!(rep.kind == K::QueryServiceVersionReply && rep.serial == serial);
        if rep.code == 0 {
            assert!(live == Some(rep.aux));
        } else {
            assert!(live.is_none());
        }
        assert!(inv_reg(&w.b));
        kani::cover!(live.is_some());
        kani::cover!(live.is_none());
        std::mem::forget(w);
    }

    #[cfg(verif_replay)]
    include!("/verif/.cache/replay/broker__verif__reg_service.rs");
}

// =================================================================================================
// C05 / C11: channel handlers
// =================================================================================================

/// One channel (cookie byte 30) in an arbitrary state satisfying the `Channel` invariant, with the
/// owners' `senders` / `receivers` sets consistent with it; connections 0, 1, 2 all present.
pub(crate) fn channel_world() -> World {
    let mut w = new_world();
    add_conn(&mut w, 0);
    add_conn(&mut w, 1);
    add_conn(&mut w, 2);
    if kani::any() {
        let ch = chv::any_channel();
        if let Some((o, _)) = chv::sender_claimed(&ch) {
            csv::senders_mut(w.b.conns.get_mut(&o).unwrap()).insert(chan_cookie(30));
        }
        if let Some((o, _)) = chv::receiver_claimed(&ch) {
            csv::receivers_mut(w.b.conns.get_mut(&o).unwrap()).insert(chan_cookie(30));
        }
        w.b.channels.insert(chan_cookie(30), ch);
    }
    let f: u8 = kani::any();
    kani::assume(f != 30);
    set_fresh(f);
    w
}

/// Concrete shape, symbolic scalars (DESIGN.md 8.1: a symbolic *shape* of the broker state does not
/// finish): connections 0 and 1 (arbitrary versions, each peer possibly gone), channel 30 with the
/// given end states (capacities symbolic, constrained by the `Channel` invariant only).
pub(crate) fn channel_world_shape(sd: chv::EndSpec, rc: chv::EndSpec) -> World {
    let mut w = new_world();
    add_conn(&mut w, 0);
    add_conn(&mut w, 1);
    let ch = chv::mk_channel(sd, rc);
    if let chv::EndSpec::C(o) = sd {
        csv::senders_mut(w.b.conns.get_mut(&conn(o)).unwrap()).insert(chan_cookie(30));
    }
    if let chv::EndSpec::C(o) = rc {
        csv::receivers_mut(w.b.conns.get_mut(&conn(o)).unwrap()).insert(chan_cookie(30));
    }
    w.b.channels.insert(chan_cookie(30), ch);
    let f: u8 = kani::any();
    kani::assume(f != 30);
    set_fresh(f);
    w
}

/// channel map and the per-connection end sets agree, and every stored channel satisfies `Inv`
pub(crate) fn inv_chan(b: &Broker) -> bool {
    let mut ok = true;
    let mut i = 0;
    while i < CAP {
        if let Some((cookie, ch)) = &b.channels.slots[i] {
            ok &= chv::inv(ch);
            if let Some((o, _)) = chv::sender_claimed(ch) {
                ok &= b.conns.get(&o).map(|c| csv::senders(c).contains(cookie)).unwrap_or(false);
            }
            if let Some((o, _)) = chv::receiver_claimed(ch) {
                ok &= b.conns.get(&o).map(|c| csv::receivers(c).contains(cookie)).unwrap_or(false);
            }
        }
        if let Some((cid, c)) = &b.conns.slots[i] {
            let mut j = 0;
            while j < CAP {
                if let Some(k) = &csv::senders(c).slots[j] {
                    ok &= b.channels.get(k).map(|ch| chv::sender_claimed(ch).map(|(o, _)| o == *cid).unwrap_or(false)).unwrap_or(false);
                }
                if let Some(k) = &csv::receivers(c).slots[j] {
                    ok &= b.channels.get(k).map(|ch| chv::receiver_claimed(ch).map(|(o, _)| o == *cid).unwrap_or(false)).unwrap_or(false);
                }
                j += 1;
            }
        }
        i += 1;
    }
    ok
}

fn chan_ends(w: &World) -> Option<(Option<(ConnectionId, u32)>, Option<(ConnectionId, u32)>, bool, bool)> {
    w.b.channels.get(&chan_cookie(30)).map(|ch| {
        (
            chv::sender_claimed(ch),
            chv::receiver_claimed(ch),
            chv::sender_unclaimed(ch),
            chv::receiver_unclaimed(ch),
        )
    })
}

fn count_kind_to(to: u8, kind: K, pred: impl Fn(&LogEntry) -> bool) -> usize {
    count_where(|e| e.to == to && e.kind == kind && pred(e))
}

#[cfg(any(verif_unit = "all", verif_unit = "chan_handlers", verif_unit = "chan_handlers_t"))]
mod chan_handlers {
    use super::*;

    fn send_item_lemma(sd: chv::EndSpec, rc: chv::EndSpec, who: u8, known: bool) {
        let mut w = channel_world_shape(sd, rc);
        let cookie = if known { chan_cookie(30) } else { chan_cookie(31) };
        assert!(inv_chan(&w.b));
        let pre = if cookie == chan_cookie(30) { chan_ends(&w) } else { None };
        let fails_who = send_fails(who);
        let value = aldrin_core::SerializedValue::serialize(7u8).unwrap();
        let r = w.b.send_item(&mut w.st, &conn(who), SendItem { cookie, value });
        match pre {
            None => assert!(r.is_ok() && log_len() == 0, "unknown channel: ignored"),
            Some((s0, r0, _, r_unclaimed)) => {
                let sender_ok = s0.map(|(o, _)| o == conn(who)).unwrap_or(false);
                if !sender_ok {
                    assert!(r.is_ok() && log_len() == 0, "items from anyone but the sender's owner are dropped");
                    assert!(chan_ends(&w).map(|(a, b, _, _)| (a, b)) == Some((s0, r0)));
                } else if let Some((ro, rc)) = r0 {
                    let (_, sc) = s0.unwrap();
                    if sc > 0 {
                        // within the announced capacity: forwarded exactly once, payload unchanged
                        let fwd = count_kind_to(ro.0, K::ItemReceived, |e| e.cookie == 30 && e.vlen == 2 && e.v1 == 7);
                        assert!(fwd == if send_fails(ro.0) { 0 } else { 1 });
                        assert!(rc > 0, "never forwarded beyond what the receiver granted");
                        let topup = count_kind_to(who, K::AddChannelCapacity, |e| e.cookie == 30);
                        assert!(topup <= 1);
                        assert!(chan_ends(&w).is_some(), "a sender within its capacity is never cut off");
                        let (s1, r1, _, _) = chan_ends(&w).unwrap();
                        assert!(s1.map(|(o, _)| o) == Some(conn(who)) && r1 == Some((ro, rc - 1)));
                        assert!(r.is_ok() || (fails_who && topup == 0));
                    } else {
                        // beyond the capacity: nothing forwarded, only the sender's end is closed
                        assert!(r.is_ok());
                        assert!(count_kind_to(ro.0, K::ItemReceived, |e| e.cookie == 30 && e.vlen == 2 && e.v1 == 7) == 0);
                        let told = count_kind_to(ro.0, K::ChannelEndClosed, |e| e.code == 0);
                        assert!(told == if send_fails(ro.0) { 0 } else { 1 }, "the receiver is told once that the sender end is closed");
                        let (s1, r1, _, _) = chan_ends(&w).unwrap();
                        assert!(s1.is_none() && r1 == Some((ro, rc)), "the receiver keeps its end");
                    }
                } else if r_unclaimed {
                    // receiver not claimed yet: sending is a protocol violation, the channel goes away
                    assert!(r.is_ok());
                    assert!(chan_ends(&w).is_none());
                } else {
                    // receiver closed: item dropped
                    assert!(r.is_ok() && log_len() == 0);
                }
            }
        }
        assert!(inv_chan(&w.b), "channel bookkeeping stays consistent");
        std::mem::forget(w);
    }

    fn add_channel_capacity_lemma(sd: chv::EndSpec, rc: chv::EndSpec, who: u8, known: bool) {
        let mut w = channel_world_shape(sd, rc);
        let cookie = if known { chan_cookie(30) } else { chan_cookie(31) };
        let capacity: u32 = kani::any();
        let pre = if cookie == chan_cookie(30) { chan_ends(&w) } else { None };
        w.b.add_channel_capacity(&mut w.st, &conn(who), AddChannelCapacity { cookie, capacity });
        match pre {
            None => assert!(log_len() == 0),
            Some((s0, r0, _, _)) => {
                let owner_grant = capacity > 0 && r0.map(|(o, _)| o == conn(who)).unwrap_or(false);
                if !owner_grant {
                    assert!(log_len() == 0, "grants of 0 or by anyone but the receiver's owner are ignored");
                    assert!(chan_ends(&w).map(|(a, b, _, _)| (a, b)) == Some((s0, r0)), "and change nothing");
                } else {
                    let (ro, rc) = r0.unwrap();
                    match rc.checked_add(capacity) {
                        None => {
                            // overflow closes only the receiver
                            match s0 {
                                Some((so, sc)) => {
                                    let (s1, r1, _, _) = chan_ends(&w).unwrap();
                                    assert!(s1 == Some((so, sc)) && r1.is_none());
                                    let told = count_kind_to(so.0, K::ChannelEndClosed, |e| e.code == 1);
                                    assert!(told == if send_fails(so.0) { 0 } else { 1 });
                                }
                                None => assert!(chan_ends(&w).is_none()),
                            }
                            assert!(!csv::receivers(w.b.conns.get(&ro).unwrap()).contains(&chan_cookie(30)));
                        }
                        Some(nr) => {
                            let (s1, r1, _, _) = chan_ends(&w).unwrap();
                            assert!(r1 == Some((ro, nr)));
                            if let Some((so, sc)) = s0 {
                                let ann = count_kind_to(so.0, K::AddChannelCapacity, |e| e.cookie == 30);
                                if sc <= 4 {
                                    assert!(s1 == Some((so, nr)), "a sender running low is topped up to the receiver's level");
                                    assert!(ann == if send_fails(so.0) { 0 } else { 1 });
                                } else {
                                    assert!(s1 == Some((so, sc)) && ann == 0);
                                }
                            }
                        }
                    }
                }
            }
        }
        assert!(inv_chan(&w.b));
        std::mem::forget(w);
    }

    fn claim_channel_end_lemma(sd: chv::EndSpec, rc: chv::EndSpec, who: u8, known: bool, as_sender: bool) {
        let mut w = channel_world_shape(sd, rc);
        let cookie = if known { chan_cookie(30) } else { chan_cookie(31) };
        set_send_fails(who, false);
        let serial: u32 = kani::any();
        let cap: u32 = kani::any();
        let end = if as_sender { ChannelEndWithCapacity::Sender } else { ChannelEndWithCapacity::Receiver(cap) };
        let pre = if cookie == chan_cookie(30) { chan_ends(&w) } else { None };
        let r = w.b.claim_channel_end(&mut w.st, &conn(who), ClaimChannelEnd { serial, cookie, end });
        assert!(r.is_ok());
        let replies = count_kind_to(who, K::ClaimChannelEndReply, |e| e.serial == serial);
        assert!(replies == 1, "exactly one reply to the claimer");
        let rep = find_where(|e| e.kind == K::ClaimChannelEndReply).unwrap();
        match pre {
            None => assert!(rep.code == 2 && log_len() == 1),
            Some((s0, r0, s_un, r_un)) => {
                let is_sender = matches!(end, ChannelEndWithCapacity::Sender);
                let (this_un, this_claimed, peer) = if is_sender { (s_un, s0.is_some(), r0) } else { (r_un, r0.is_some(), s0) };
                if this_un {
                    // an end can be claimed once; the peer is told exactly once
                    let (po, pc) = peer.unwrap();
                    if is_sender {
                        assert!(rep.code == 0 && rep.aux == pc, "the claimer learns the receiver's capacity");
                    } else {
                        assert!(rep.code == 1);
                    }
                    let told = count_kind_to(po.0, K::ChannelEndClaimed, |e| e.cookie == 30 && e.code == if is_sender { 0 } else { 1 });
                    assert!(told == if send_fails(po.0) { 0 } else { 1 });
                    let (s1, r1, _, _) = chan_ends(&w).unwrap();
                    if is_sender {
                        assert!(s1 == Some((conn(who), pc)) && r1 == r0);
                    } else {
                        assert!(r1 == Some((conn(who), cap)) && s1 == Some((po, cap)));
                    }
                } else if this_claimed {
                    assert!(rep.code == 3);
                    assert!(chan_ends(&w).map(|(a, b, _, _)| (a, b)) == Some((s0, r0)));
                } else {
                    assert!(rep.code == 2);
                }
            }
        }
        assert!(inv_chan(&w.b));
        std::mem::forget(w);
    }

    fn close_channel_end_lemma(sd: chv::EndSpec, rc: chv::EndSpec, who: u8, known: bool, as_sender: bool) {
        let mut w = channel_world_shape(sd, rc);
        let cookie = if known { chan_cookie(30) } else { chan_cookie(31) };
        set_send_fails(who, false);
        let serial: u32 = kani::any();
        let end = if as_sender { ChannelEnd::Sender } else { ChannelEnd::Receiver };
        let pre = if cookie == chan_cookie(30) { chan_ends(&w) } else { None };
        let r = w.b.close_channel_end(&mut w.st, &conn(who), CloseChannelEnd { serial, cookie, end });
        assert!(r.is_ok());
        let rep = find_where(|e| e.kind == K::CloseChannelEndReply && e.to == who && e.serial == serial).unwrap();
        match pre {
            None => assert!(rep.code == 1 && log_len() == 1),
            Some((s0, r0, s_un, r_un)) => {
                let (this, this_un, other) = match end {
                    ChannelEnd::Sender => (s0, s_un, r0),
                    ChannelEnd::Receiver => (r0, r_un, s0),
                };
                let allowed = this_un || this.map(|(o, _)| o == conn(who)).unwrap_or(false);
                if allowed {
                    assert!(rep.code == 0);
                    match other {
                        Some((po, _)) => {
                            let told = count_kind_to(po.0, K::ChannelEndClosed, |e| e.cookie == 30 && e.code == if end == ChannelEnd::Sender { 0 } else { 1 });
                            // when claimer and peer are the same connection it also got the reply
                            assert!(told == if send_fails(po.0) { 0 } else { 1 }, "the peer is told exactly once");
                            let (s1, r1, _, _) = chan_ends(&w).unwrap();
                            match end {
                                ChannelEnd::Sender => assert!(s1.is_none() && r1 == r0),
                                ChannelEnd::Receiver => assert!(r1.is_none() && s1 == s0),
                            }
                        }
                        None => assert!(chan_ends(&w).is_none(), "no claimed end left: the channel is removed"),
                    }
                } else if this.is_some() {
                    assert!(rep.code == 2, "only the owner can close a claimed end");
                    assert!(chan_ends(&w).map(|(a, b, _, _)| (a, b)) == Some((s0, r0)) && log_len() == 1);
                } else {
                    assert!(rep.code == 1 && log_len() == 1);
                }
            }
        }
        assert!(inv_chan(&w.b));
        std::mem::forget(w);
    }

    #[kani::proof]
    #[kani::unwind(18)]
    #[kani::stub(aldrin_core::ChannelCookie::new_v4, fresh_chan_cookie)]
    fn q_c05_c11_create_channel() {
        // one other channel already exists
        let mut w = channel_world_shape(chv::EndSpec::C(0), chv::EndSpec::C(1));
        let who = 1;
        let serial: u32 = kani::any();
        let cap: u32 = kani::any();
        let end = if kani::any() { ChannelEndWithCapacity::Sender } else { ChannelEndWithCapacity::Receiver(cap) };
        let r = w.b.create_channel(&conn(who), CreateChannel { serial, end });
        if send_fails(who) {
            assert!(r.is_err());
        } else {
            assert!(r.is_ok() && log_len() == 1 && log(0).to == who);
            let rep = log(0);
            assert!(rep.kind == K::CreateChannelReply && rep.serial == serial && rep.cookie == fresh());
        }
        let ch = w.b.channels.get(&chan_cookie(fresh())).unwrap();
        match end {
            ChannelEndWithCapacity::Sender => assert!(chv::sender_claimed(ch) == Some((conn(who), 0)) && chv::receiver_unclaimed(ch)),
            ChannelEndWithCapacity::Receiver(c) => assert!(chv::receiver_claimed(ch) == Some((conn(who), c)) && chv::sender_unclaimed(ch)),
        }
        assert!(inv_chan(&w.b));
        std::mem::forget(w);
    }

    use chv::EndSpec::{C, U, X};

    macro_rules! inst {
        ($($name:ident = $lemma:ident($($arg:expr),*) $(=> $cov:expr)?;)*) => {$(
            #[kani::proof]
            #[kani::unwind(18)]
            fn $name() {
                $lemma($($arg),*);
                // vacuity witnesses: the end is reached, and (where given) the interesting outcome
                kani::cover!(true);
                $(kani::cover!($cov);)?
            }
        )*};
    }
    macro_rules! inst_t {
        ($($name:ident = $lemma:ident($($arg:expr),*) $(=> $cov:expr)?;)*) => {$(
            #[cfg(any(verif_unit = "all", verif_unit = "chan_handlers_t"))]
            #[kani::proof]
            #[kani::unwind(18)]
            fn $name() {
                $lemma($($arg),*);
                kani::cover!(true);
                $(kani::cover!($cov);)?
            }
        )*};
    }

    // q_ = quick and thorough tier, t_ = thorough tier only (unit chan_handlers_t). Shapes: sender
    // end, receiver end (U unclaimed, C(owner) claimed, X closed), who sends the request, whether the
    // cookie names the channel (, which end is meant).
    inst! {
        q_c05_c11_send_item_cc01_by_sender = send_item_lemma(C(0), C(1), 0, true)
            => count_kind_to(1, K::ItemReceived, |_| true) == 1 && count_kind_to(0, K::AddChannelCapacity, |e| e.cookie == 30) == 1;
        q_c05_c11_send_item_cc01_by_receiver = send_item_lemma(C(0), C(1), 1, true);
        q_c05_c11_send_item_cu_by_sender = send_item_lemma(C(0), U, 0, true);
        q_c05_c11_send_item_cx_by_sender = send_item_lemma(C(0), X, 0, true);
        q_c05_c11_send_item_unknown_cookie = send_item_lemma(C(0), C(1), 0, false);
        q_c05_c11_add_capacity_cc01_by_receiver = add_channel_capacity_lemma(C(0), C(1), 1, true)
            => count_kind_to(0, K::AddChannelCapacity, |e| e.cookie == 30) == 1;
        q_c05_c11_add_capacity_cc01_by_sender = add_channel_capacity_lemma(C(0), C(1), 0, true);
        q_c05_c11_add_capacity_uc_by_receiver = add_channel_capacity_lemma(U, C(1), 1, true);
        q_c05_c11_add_capacity_xc_by_receiver = add_channel_capacity_lemma(X, C(1), 1, true);
        q_c05_c11_add_capacity_unknown_cookie = add_channel_capacity_lemma(C(0), C(1), 1, false);
        q_c05_c11_claim_receiver_cu_by_other = claim_channel_end_lemma(C(0), U, 1, true, false)
            => count_kind_to(0, K::ChannelEndClaimed, |e| e.cookie == 30) == 1;
        q_c05_c11_claim_sender_uc_by_other = claim_channel_end_lemma(U, C(1), 0, true, true);
        q_c05_c11_claim_sender_cc01_again = claim_channel_end_lemma(C(0), C(1), 1, true, true);
        q_c05_c11_claim_receiver_cx_closed = claim_channel_end_lemma(C(0), X, 1, true, false);
        q_c05_c11_claim_unknown_cookie = claim_channel_end_lemma(C(0), U, 1, false, false);
        q_c05_c11_close_sender_cc01_by_owner = close_channel_end_lemma(C(0), C(1), 0, true, true)
            => count_kind_to(1, K::ChannelEndClosed, |e| e.cookie == 30) == 1;
        q_c05_c11_close_receiver_cc01_by_owner = close_channel_end_lemma(C(0), C(1), 1, true, false);
        q_c05_c11_close_sender_cc01_by_other = close_channel_end_lemma(C(0), C(1), 1, true, true);
        q_c05_c11_close_receiver_cu_unclaimed = close_channel_end_lemma(C(0), U, 1, true, false);
        q_c05_c11_close_sender_cx_last_end = close_channel_end_lemma(C(0), X, 0, true, true);
        q_c05_c11_close_unknown_cookie = close_channel_end_lemma(C(0), C(1), 0, false, true);
    }
    inst_t! {
        t_c05_c11_send_item_cc00_by_owner = send_item_lemma(C(0), C(0), 0, true);
        t_c05_c11_send_item_cc00_by_other = send_item_lemma(C(0), C(0), 1, true);
        t_c05_c11_send_item_uc_by_receiver = send_item_lemma(U, C(1), 1, true);
        t_c05_c11_send_item_xc_by_receiver = send_item_lemma(X, C(1), 1, true);
        t_c05_c11_send_item_cu_by_other = send_item_lemma(C(0), U, 1, true);
        t_c05_c11_add_capacity_cc00_by_owner = add_channel_capacity_lemma(C(0), C(0), 0, true);
        t_c05_c11_add_capacity_cc00_by_other = add_channel_capacity_lemma(C(0), C(0), 1, true);
        t_c05_c11_add_capacity_cu_by_sender = add_channel_capacity_lemma(C(0), U, 0, true);
        t_c05_c11_add_capacity_cx_by_sender = add_channel_capacity_lemma(C(0), X, 0, true);
        t_c05_c11_add_capacity_uc_by_other = add_channel_capacity_lemma(U, C(1), 0, true);
        t_c05_c11_claim_receiver_cu_by_same = claim_channel_end_lemma(C(0), U, 0, true, false);
        t_c05_c11_claim_sender_uc_by_same = claim_channel_end_lemma(U, C(1), 1, true, true);
        t_c05_c11_claim_receiver_cc01_again = claim_channel_end_lemma(C(0), C(1), 0, true, false);
        t_c05_c11_claim_sender_xc_closed = claim_channel_end_lemma(X, C(1), 0, true, true);
        t_c05_c11_claim_sender_cu_again = claim_channel_end_lemma(C(0), U, 1, true, true);
        t_c05_c11_close_sender_uc_unclaimed = close_channel_end_lemma(U, C(1), 0, true, true);
        t_c05_c11_close_receiver_xc_last_end = close_channel_end_lemma(X, C(1), 1, true, false);
        t_c05_c11_close_receiver_cx_closed = close_channel_end_lemma(C(0), X, 1, true, false);
        t_c05_c11_close_sender_cc00_by_owner = close_channel_end_lemma(C(0), C(0), 0, true, true);
        t_c05_c11_close_receiver_cc00_by_other = close_channel_end_lemma(C(0), C(0), 1, true, false);
        t_c05_c11_close_sender_cu_by_owner = close_channel_end_lemma(C(0), U, 0, true, true);
    }

    #[cfg(verif_replay)]
    include!("/verif/.cache/replay/broker__verif__chan_handlers.rs");
}

// =================================================================================================
// C12: per-handler version gates; C11: wrong-direction messages
// =================================================================================================

/// One connection (tag 0, peer alive) with an arbitrary negotiated version, empty bus.
pub(crate) fn gate_world() -> World {
    let mut w = new_world();
    add_conn_ok(&mut w, 0);
    set_fresh(0xf0);
    w
}

pub(crate) fn minor_of(w: &World, tag: u8) -> u32 {
    version_of(w, tag).minor()
}

/// nothing was registered anywhere (the gate lemmas run on an otherwise empty bus)
pub(crate) fn bus_is_empty(w: &World) -> bool {
    w.b.objs.is_empty()
        && w.b.obj_uuids.is_empty()
        && w.b.svcs.is_empty()
        && w.b.svc_uuids.is_empty()
        && w.b.channels.is_empty()
        && w.b.bus_listeners.is_empty()
        && smv::elems(&w.b.function_calls).is_empty()
        && csv::is_blank(w.b.conns.get(&conn(0)).unwrap())
        && !w.st.has_work_left()
}

fn small_value() -> SerializedValue {
    SerializedValue::serialize(7u8).unwrap()
}

#[cfg(any(verif_unit = "all", verif_unit = "gates", verif_unit = "gates_t"))]
mod gates {
    use super::*;

    /// A gated handler closes the connection (`Err`) iff its negotiated version is below the gate,
    /// and then nothing was sent and nothing changed; at or above the gate the message is handled
    /// (here: answered "invalid ..."/ignored, since the bus is empty) and the connection stays.
    macro_rules! gate {
        ($name:ident, $gate:expr, |$w:ident| $call:expr) => {
            #[kani::proof]
            #[kani::unwind(18)]
            fn $name() {
                let mut $w = gate_world();
                let minor = minor_of(&$w, 0);
                let r: Result<(), ()> = $call;
                if minor < $gate {
                    assert!(r.is_err(), "a message newer than the negotiated version closes the connection");
                    assert!(log_len() == 0, "and is not answered");
                } else {
                    assert!(r.is_ok(), "at or above the gate the message is accepted");
                }
                assert!(bus_is_empty(&$w), "no state is created either way on an empty bus");
                kani::cover!(minor < $gate);
                kani::cover!(minor >= $gate);
                std::mem::forget($w);
            }
        };
    }

    gate!(q_c12_c11_gate_call_function2, 19, |w| w.b.call_function2(&mut w.st, &conn(0), CallFunction2 {
        serial: kani::any(), service_cookie: svc_cookie(any_below(3)), function: kani::any(), version: None, value: small_value() }));
    gate!(q_c12_c11_gate_abort_function_call, 16, |w| w.b.abort_function_call(&mut w.st, &conn(0), AbortFunctionCall { serial: kani::any() }));
    gate!(q_c12_c11_gate_register_introspection, 17, |w| w.b.register_introspection(&conn(0), RegisterIntrospection { value: small_value() }));
    gate!(q_c12_c11_gate_query_introspection, 17, |w| w.b.query_introspection(&mut w.st, &conn(0), QueryIntrospection {
        serial: kani::any(), type_id: unsafe { std::mem::transmute::<[u8; 16], aldrin_core::TypeId>([3; 16]) } }));
    gate!(q_c12_c11_gate_create_service2, 17, |w| w.b.create_service2(&mut w.st, &conn(0), CreateService2 {
        serial: kani::any(), object_cookie: obj_cookie(any_below(3)), uuid: svc_uuid(0), value: small_value() }));
    gate!(q_c12_c11_gate_query_service_info, 17, |w| w.b.query_service_info(&conn(0), QueryServiceInfo { serial: kani::any(), cookie: svc_cookie(any_below(3)) }));
    gate!(q_c12_c11_gate_subscribe_service, 18, |w| w.b.subscribe_service(&conn(0), SubscribeService { serial: kani::any(), service_cookie: svc_cookie(any_below(3)) }));
    gate!(q_c12_c11_gate_unsubscribe_service, 18, |w| w.b.unsubscribe_service(&conn(0), UnsubscribeService { service_cookie: svc_cookie(any_below(3)) }));
    gate!(q_c12_c11_gate_subscribe_all_events, 18, |w| {
        let serial: u32 = kani::any();
        w.b.subscribe_all_events(&conn(0), SubscribeAllEvents { serial: Some(serial), service_cookie: svc_cookie(any_below(3)) })
    });
    gate!(q_c12_c11_gate_unsubscribe_all_events, 18, |w| w.b.unsubscribe_all_events(&conn(0), UnsubscribeAllEvents {
        serial: if kani::any() { Some(kani::any()) } else { None }, service_cookie: svc_cookie(any_below(3)) }));

    /// Without the introspection feature a `QueryIntrospectionReply` always closes the sender.
    #[kani::proof]
    #[kani::unwind(18)]
    fn q_c12_c11_query_introspection_reply_rejected() {
        let mut w = gate_world();
        let r = w.b.query_introspection_reply(&mut w.st, &conn(0), QueryIntrospectionReply {
            serial: kani::any(), result: QueryIntrospectionResult::Unavailable });
        assert!(r.is_err() && log_len() == 0 && bus_is_empty(&w));
        std::mem::forget(w);
    }

    /// A message from a connection the broker does not (or no longer) know is ignored by every
    /// gated handler.
    #[kani::proof]
    #[kani::unwind(18)]
    fn q_c11_gated_handlers_ignore_unknown_sender() {
        let mut w = gate_world();
        assert!(w.b.call_function2(&mut w.st, &conn(1), CallFunction2 { serial: 1, service_cookie: svc_cookie(0), function: 0, version: None, value: small_value() }).is_ok());
        assert!(w.b.abort_function_call(&mut w.st, &conn(1), AbortFunctionCall { serial: 1 }).is_ok());
        assert!(w.b.query_service_info(&conn(1), QueryServiceInfo { serial: 1, cookie: svc_cookie(0) }).is_ok());
        assert!(w.b.subscribe_service(&conn(1), SubscribeService { serial: 1, service_cookie: svc_cookie(0) }).is_ok());
        assert!(w.b.unsubscribe_all_events(&conn(1), UnsubscribeAllEvents { serial: None, service_cookie: svc_cookie(0) }).is_ok());
        assert!(log_len() == 0 && bus_is_empty(&w));
        std::mem::forget(w);
    }

    #[cfg(verif_replay)]
    include!("/verif/.cache/replay/broker__verif__gates.rs");
}

// =================================================================================================
// C02: calls - routing, reply acceptance, abort
// =================================================================================================

#[derive(Clone, Copy)]
pub(crate) struct CallSpec {
    pub present: bool,
    pub serial: u32,
    pub caller: u8,
    pub caller_serial: u32,
    pub aborted: bool,
}

pub(crate) struct CallWorld {
    pub w: World,
    pub owner: u8,
    pub a: CallSpec,
    pub b: CallSpec,
}

fn any_call_spec(present: bool, caller: u8, aborted: bool) -> CallSpec {
    CallSpec {
        present,
        serial: kani::any(),
        caller,
        caller_serial: kani::any(),
        aborted,
    }
}

fn install_call(w: &mut World, c: &CallSpec, owner: u8) {
    if !c.present {
        return;
    }
    smv::elems_mut(&mut w.b.function_calls).insert(
        c.serial,
        PendingFunctionCall {
            caller_serial: c.caller_serial,
            caller_conn_id: conn(c.caller),
            callee_obj: obj_uuid(0),
            callee_svc: svc_uuid(0),
            aborted: c.aborted,
        },
    );
    svv::function_calls_mut(w.b.svcs.get_mut(&(obj_uuid(0), svc_uuid(0))).unwrap()).insert(c.serial);
    if !c.aborted {
        csv::calls_mut(w.b.conns.get_mut(&conn(c.caller)).unwrap()).insert(c.caller_serial, (c.serial, conn(owner)));
    }
}

/// Connections 0 and 1 (fits CAP = 2; caller, owner and "somebody else" alias in every possible
/// way over the two); object (uuid 0, cookie 10) owned by `owner`, service (uuid 0, cookie 20);
/// up to two pending calls A, B with arbitrary broker serials, callers, caller serials and aborted
/// flags, consistent with `Inv_calls`: distinct broker serials; a non-aborted call is referenced
/// from its caller's `calls` under its caller serial (so two non-aborted calls of one caller have
/// different caller serials); an aborted call has no back-reference - in particular an aborted
/// call may share its caller serial with a later, active call of the same caller (serial reuse).
///
/// The *shape* of the state - who owns the service, who the callers are, which calls exist and
/// which are aborted - is a concrete parameter and the lemmas are instantiated over the shapes
/// (owner = 0 without loss of generality: the code never looks at the tag value). Serials and
/// caller serials, versions and peer liveness stay symbolic. With a symbolic shape every map
/// update goes through an if-then-else over whole `ConnectionState`s and the SAT back end runs
/// out of memory (> 11 GB); with a concrete shape a lemma takes well under a minute.
pub(crate) fn call_world(owner: u8, caller_a: u8, caller_b: u8, shape: (bool, bool, bool, bool)) -> CallWorld {
    let mut w = new_world();
    add_conn(&mut w, 0);
    add_conn(&mut w, 1);
    add_object(&mut w, 0, 10, owner);
    add_service(&mut w, 0, 10, 0, 20, ServiceInfo::new(1));
    let (a_present, a_aborted, b_present, b_aborted) = shape;
    let a = any_call_spec(a_present, caller_a, a_aborted);
    let b = any_call_spec(b_present, caller_b, b_aborted);
    kani::assume(!(a.present && b.present) || a.serial != b.serial);
    kani::assume(!(a.present && b.present && !a.aborted && !b.aborted && a.caller == b.caller) || a.caller_serial != b.caller_serial);
    install_call(&mut w, &a, owner);
    install_call(&mut w, &b, owner);
    smv::set_next(&mut w.b.function_calls, kani::any());
    set_fresh(0xf0);
    CallWorld { w, owner, a, b }
}

pub(crate) fn call_pending(w: &World, serial: u32) -> Option<(u32, u8, bool)> {
    smv::elems(&w.b.function_calls).get(&serial).map(|c| (c.caller_serial, c.caller_conn_id.0, c.aborted))
}

pub(crate) fn backref(w: &World, caller: u8, caller_serial: u32) -> Option<(u32, u8)> {
    w.b.conns.get(&conn(caller)).and_then(|c| csv::calls(c).get(&caller_serial).map(|(s, id)| (*s, id.0)))
}

fn spec_state_unchanged(cw: &CallWorld, c: &CallSpec) -> bool {
    if !c.present {
        return true;
    }
    call_pending(&cw.w, c.serial) == Some((c.caller_serial, c.caller, c.aborted))
        && (c.aborted || backref(&cw.w, c.caller, c.caller_serial) == Some((c.serial, cw.owner)))
}

#[cfg(any(verif_unit = "all", verif_unit = "calls", verif_unit = "calls_t"))]
mod calls {
    use super::*;

    /// Reply acceptance: only the owner's reply to a pending, non-aborted call is delivered - once,
    /// to the caller, under the caller's serial, result unchanged; everything else is dropped
    /// without touching other calls (in particular a stale reply to an aborted call whose caller
    /// serial has been reused).
    fn call_function_reply_lemma(ca: u8, cb: u8, who: u8, shape: (bool, bool, bool, bool)) {
        let owner = 0;
        let mut cw = call_world(owner, ca, cb, shape);
        let serial: u32 = kani::any();
        let hit_a = cw.a.present && cw.a.serial == serial;
        let hit_b = cw.b.present && cw.b.serial == serial;
        let target = if hit_a { Some(cw.a) } else if hit_b { Some(cw.b) } else { None };
        let other = if hit_a { cw.b } else { cw.a };
        let res_tag: u8 = kani::any();
        let result = match res_tag % 3 {
            0 => CallFunctionResult::Ok(small_value()),
            1 => CallFunctionResult::InvalidFunction,
            _ => CallFunctionResult::InvalidArgs,
        };
        cw.w.b.call_function_reply(&mut cw.w.st, &conn(who), CallFunctionReply { serial, result });
        match target {
            None => {
                assert!(log_len() == 0, "a reply for an unknown serial is dropped");
                assert!(spec_state_unchanged(&cw, &cw.a) && spec_state_unchanged(&cw, &cw.b));
            }
            Some(t) if who != cw.owner => {
                assert!(log_len() == 0, "a reply from anyone but the service owner is dropped");
                assert!(spec_state_unchanged(&cw, &cw.a) && spec_state_unchanged(&cw, &cw.b));
            }
            Some(t) => {
                assert!(call_pending(&cw.w, serial).is_none(), "the pending entry is consumed: a second reply finds nothing");
                assert!(!svv::function_calls(cw.w.b.svcs.get(&(obj_uuid(0), svc_uuid(0))).unwrap()).contains(&serial));
                if t.aborted {
                    assert!(log_len() == 0, "a reply after an abort is never delivered");
                } else {
                    let expect = if send_fails(t.caller) { 0 } else { 1 };
                    assert!(log_len() == expect);
                    if expect == 1 {
                        let rep = log(0);
                        assert!(rep.to == t.caller && rep.kind == K::CallFunctionReply, "the reply goes to the caller");
                        assert!(rep.serial == t.caller_serial, "under the caller's own serial");
                        let same = match res_tag % 3 {
                            0 => rep.code == 0 && rep.vlen == 2 && rep.v0 == 3 && rep.v1 == 7,
                            1 => rep.code == 4,
                            _ => rep.code == 5,
                        };
                        assert!(same, "with the owner's result and payload unchanged");
                        assert!(rep.vminor as u32 == minor_of(&cw.w, who), "payload tagged with the replier's version");
                    }
                    assert!(backref(&cw.w, t.caller, t.caller_serial).is_none(), "the caller's tracking entry is gone");
                }
                // the other call is untouched, whatever serials it shares with this one
                assert!(spec_state_unchanged(&cw, &other), "other pending calls are not affected");
            }
        }
        if shape == (true, true, true, false) && ca == cb && who == owner {
            // serial reuse: stale reply to an aborted call whose caller serial is in use again
            kani::cover!(hit_a && cw.b.caller_serial == cw.a.caller_serial);
        }
        if shape == (true, false, false, false) && who == owner {
            kani::cover!(hit_a && log_len() == 1);
        }
        std::mem::forget(cw);
    }

    /// Abort by the caller: exactly one `Aborted` reply under the caller's serial, the entry is
    /// marked aborted and the back-reference removed; the owner is told iff it speaks >= 1.16.
    fn abort_call_lemma(ca: u8, cb: u8, who: u8, shape: (bool, bool, bool, bool)) {
        let owner = 0;
        let mut cw = call_world(owner, ca, cb, shape);
        let caller_serial: u32 = kani::any();
        let minor = minor_of(&cw.w, who);
        let tracked = backref(&cw.w, who, caller_serial);
        let r = cw.w.b.abort_function_call(&mut cw.w.st, &conn(who), AbortFunctionCall { serial: caller_serial });
        if minor < 16 {
            assert!(r.is_err() && log_len() == 0);
            assert!(spec_state_unchanged(&cw, &cw.a) && spec_state_unchanged(&cw, &cw.b));
        } else {
            assert!(r.is_ok() && log_len() == 0, "the abort itself is deferred");
            let q = stv::abort_function_calls(&cw.w.st);
            match tracked {
                None => assert!(q.is_empty(), "aborting an unknown serial does nothing"),
                Some((s, callee)) => {
                    assert!(q.len() == 1 && q[0].0 == s && q[0].1 == conn(callee));
                    // the deferred step
                    let owner_minor = minor_of(&cw.w, cw.owner);
                    cw.w.b.abort_call(&mut cw.w.st, s, conn(callee));
                    assert!(call_pending(&cw.w, s) == Some((caller_serial, who, true)), "entry stays, marked aborted");
                    assert!(backref(&cw.w, who, caller_serial).is_none());
                    let to_caller = count_kind_to(who, K::CallFunctionReply, |e| e.serial == caller_serial && e.code == 2);
                    assert!(to_caller == if send_fails(who) { 0 } else { 1 }, "exactly one Aborted reply to the caller");
                    let to_owner = count_kind_to(callee, K::AbortFunctionCall, |e| e.serial == s);
                    assert!(to_owner == if owner_minor >= 16 && !send_fails(callee) { 1 } else { 0 }, "owner told iff it speaks >= 1.16");
                    // aborting again changes nothing and sends nothing more
                    let n = log_len();
                    cw.w.b.abort_call(&mut cw.w.st, s, conn(callee));
                    assert!(log_len() == n);
                }
            }
        }
        if who == ca && shape.0 && !shape.1 {
            kani::cover!(minor >= 16 && tracked.is_some());
        }
        std::mem::forget(cw);
    }

    macro_rules! shapes {
        ($($name:ident = $f:ident($a:expr, $b:expr, $w:expr, $shape:expr);)*) => {$(
            #[kani::proof]
            #[kani::unwind(18)]
            fn $name() {
                $f($a, $b, $w, $shape);
            }
        )*};
    }

    // caller of call A, caller of call B, sender of the message, (A present, A aborted, B present, B aborted)
    const ONE: (bool, bool, bool, bool) = (true, false, false, false);
    const ONE_ABORTED: (bool, bool, bool, bool) = (true, true, false, false);
    const TWO: (bool, bool, bool, bool) = (true, false, true, false);
    const REUSE: (bool, bool, bool, bool) = (true, true, true, false);
    const NONE_PENDING: (bool, bool, bool, bool) = (false, false, false, false);
    shapes! {
        q_c02_c11_reply_none_pending = call_function_reply_lemma(1, 1, 0, NONE_PENDING);
        q_c02_c11_reply_one_by_owner = call_function_reply_lemma(1, 1, 0, ONE);
        q_c02_c11_reply_one_by_other = call_function_reply_lemma(1, 1, 1, ONE);
        q_c02_c11_reply_one_self_call = call_function_reply_lemma(0, 0, 0, ONE);
        q_c02_c11_reply_one_aborted = call_function_reply_lemma(1, 1, 0, ONE_ABORTED);
        q_c02_c11_reply_two_same_caller = call_function_reply_lemma(1, 1, 0, TWO);
        q_c02_c11_reply_two_callers = call_function_reply_lemma(0, 1, 0, TWO);
        q_c02_c11_reply_serial_reuse = call_function_reply_lemma(1, 1, 0, REUSE);
        q_c02_c11_reply_serial_reuse_self = call_function_reply_lemma(0, 0, 0, REUSE);
        q_c02_c11_abort_one = abort_call_lemma(1, 1, 1, ONE);
        q_c02_c11_abort_one_self = abort_call_lemma(0, 0, 0, ONE);
        q_c02_c11_abort_two = abort_call_lemma(1, 1, 1, TWO);
        q_c02_c11_abort_by_other = abort_call_lemma(1, 1, 0, ONE);
        q_c02_c11_abort_after_abort = abort_call_lemma(1, 1, 1, REUSE);
    }

    #[cfg(verif_replay)]
    include!("/verif/.cache/replay/broker__verif__calls.rs");
}

// =================================================================================================
// C04: event subscriptions and fan-out
// =================================================================================================

pub(crate) struct EventWorld {
    pub w: World,
    pub owner: u8,
    /// sub[c][e]: connection c subscribed to event e (e in {0,1}); all[c]: subscribed to all events
    pub sub: [[bool; 2]; 2],
    pub all: [bool; 2],
}

/// Concrete shape, symbolic scalars: connections 0 and 1 (arbitrary versions, each peer possibly
/// gone); object (0, 10) owned by `owner`, service (0, 20) that supports subscribe-all; the given
/// event / all-events subscriptions, mirrored between the service and the subscribers' connection
/// states (as `subscribe_event` / `subscribe_all_events` leave them).
pub(crate) fn event_world(owner: u8, sub: [[bool; 2]; 2], all: [bool; 2]) -> EventWorld {
    let mut w = new_world();
    add_conn(&mut w, 0);
    add_conn(&mut w, 1);
    add_object(&mut w, 0, 10, owner);
    add_service(&mut w, 0, 10, 0, 20, ServiceInfo::new(1).set_subscribe_all(true));
    let mut c = 0u8;
    while c < 2 {
        let mut e = 0u32;
        while e < 2 {
            if sub[c as usize][e as usize] {
                w.b.svcs.get_mut(&(obj_uuid(0), svc_uuid(0))).unwrap().subscribe_event(e, conn(c));
                w.b.conns.get_mut(&conn(c)).unwrap().subscribe_event(svc_cookie(20), e);
            }
            e += 1;
        }
        if all[c as usize] {
            w.b.svcs.get_mut(&(obj_uuid(0), svc_uuid(0))).unwrap().subscribe_all_events(conn(c));
            w.b.conns.get_mut(&conn(c)).unwrap().subscribe_all_events(svc_cookie(20));
        }
        c += 1;
    }
    set_fresh(0xf0);
    EventWorld { w, owner, sub, all }
}

fn n_subs(ew: &EventWorld, e: usize) -> usize {
    (ew.sub[0][e] as usize) + (ew.sub[1][e] as usize)
}

fn svc_has_sub(w: &World, e: u32, c: u8) -> bool {
    svv::events(w.b.svcs.get(&(obj_uuid(0), svc_uuid(0))).unwrap()).get(&e).map(|s| s.contains(&conn(c))).unwrap_or(false)
}

fn conn_has_sub(w: &World, e: u32, c: u8) -> bool {
    csv::events(w.b.conns.get(&conn(c)).unwrap()).get(&svc_cookie(20)).map(|s| s.contains(&e)).unwrap_or(false)
}

#[cfg(any(verif_unit = "all", verif_unit = "events", verif_unit = "events_t"))]
mod events {
    use super::*;

    const T: bool = true;
    const F: bool = false;

    /// Fan-out: an event emitted by the owner reaches exactly the connections subscribed to that
    /// event id or to all events, once each, payload unchanged; a non-owner's emit is dropped.
    fn emit_event_lemma(owner: u8, sub: [[bool; 2]; 2], all: [bool; 2], who: u8, e: u32, known: bool) {
        let mut ew = event_world(owner, sub, all);
        let cookie = if known { svc_cookie(20) } else { svc_cookie(21) };
        ew.w.b.emit_event(&mut ew.w.st, &conn(who), EmitEvent { service_cookie: cookie, event: e, value: small_value() });
        if !known || who != ew.owner {
            assert!(log_len() == 0, "events of unknown services or from non-owners are dropped");
        } else {
            let mut c = 0u8;
            while c < 2 {
                let subscribed = ew.sub[c as usize][e as usize] || ew.all[c as usize];
                let got = count_kind_to(c, K::EmitEvent, |x| x.cookie == 20 && x.aux == e && x.vlen == 2 && x.v0 == 3 && x.v1 == 7);
                let expect = if subscribed && !send_fails(c) { 1 } else { 0 };
                assert!(got == expect, "delivered exactly once to each subscribed connection and to nobody else");
                assert!(log_count_to(c) == got, "nothing else is sent");
                c += 1;
            }
        }
        std::mem::forget(ew);
    }

    /// Subscribe: one reply; the owner is asked to start producing iff this is the 0 -> 1 transition.
    fn subscribe_event_lemma(owner: u8, sub: [[bool; 2]; 2], all: [bool; 2], who: u8, e: u32, known: bool) {
        let mut ew = event_world(owner, sub, all);
        set_send_fails(who, false);
        let serial: u32 = kani::any();
        let cookie = if known { svc_cookie(20) } else { svc_cookie(21) };
        let n0 = n_subs(&ew, e as usize);
        let r = ew.w.b.subscribe_event(&conn(who), SubscribeEvent { serial: Some(serial), service_cookie: cookie, event: e });
        assert!(r.is_ok());
        let replies = count_kind_to(who, K::SubscribeEventReply, |x| x.serial == serial);
        assert!(replies == 1, "exactly one reply");
        if !known {
            assert!(log_len() == 1 && log(0).kind == K::SubscribeEventReply && log(0).code == 1);
        } else {
            assert!(find_where(|x| x.kind == K::SubscribeEventReply).unwrap().code == 0);
            assert!(svc_has_sub(&ew.w, e, who) && conn_has_sub(&ew.w, e, who), "recorded on both sides");
            let asked = count_kind_to(ew.owner, K::SubscribeEvent, |x| !x.has_serial && x.aux == e && x.cookie == 20);
            let first = n0 == 0;
            assert!(asked == if first && !send_fails(ew.owner) { 1 } else { 0 }, "owner told to start exactly on the 0 -> 1 transition");
            // the other connection's subscriptions are untouched
            let o = 1 - who;
            assert!(svc_has_sub(&ew.w, e, o) == ew.sub[o as usize][e as usize]);
            assert!(svc_has_sub(&ew.w, 1 - e, who) == ew.sub[who as usize][(1 - e) as usize]);
        }
        std::mem::forget(ew);
    }

    /// Unsubscribe: the owner is told to stop iff this removes the last subscriber.
    fn unsubscribe_event_lemma(owner: u8, sub: [[bool; 2]; 2], all: [bool; 2], who: u8, e: u32, known: bool) {
        let mut ew = event_world(owner, sub, all);
        let cookie = if known { svc_cookie(20) } else { svc_cookie(21) };
        let n0 = n_subs(&ew, e as usize);
        let was = ew.sub[who as usize][e as usize];
        ew.w.b.unsubscribe_event(&mut ew.w.st, &conn(who), UnsubscribeEvent { service_cookie: cookie, event: e });
        if !known {
            assert!(log_len() == 0);
        } else {
            assert!(!svc_has_sub(&ew.w, e, who) && !conn_has_sub(&ew.w, e, who));
            let told = count_kind_to(ew.owner, K::UnsubscribeEvent, |x| x.aux == e && x.cookie == 20);
            let last = was && n0 == 1;
            assert!(told == if last && !send_fails(ew.owner) { 1 } else { 0 }, "owner told to stop exactly on the 1 -> 0 transition");
            assert!(log_len() == told);
            // other subscriptions stay
            let o = 1 - who;
            assert!(svc_has_sub(&ew.w, e, o) == ew.sub[o as usize][e as usize]);
            assert!(svc_has_sub(&ew.w, 1 - e, who) == ew.sub[who as usize][(1 - e) as usize]);
            assert!(conn_has_sub(&ew.w, 1 - e, who) == ew.sub[who as usize][(1 - e) as usize]);
        }
        std::mem::forget(ew);
    }

    macro_rules! inst {
        ($($name:ident = $lemma:ident($($arg:expr),*) $(=> $cov:expr)?;)*) => {$(
            #[kani::proof]
            #[kani::unwind(18)]
            fn $name() {
                $lemma($($arg),*);
                kani::cover!(true);
                $(kani::cover!($cov);)?
            }
        )*};
    }
    macro_rules! inst_t {
        ($($name:ident = $lemma:ident($($arg:expr),*) $(=> $cov:expr)?;)*) => {$(
            #[cfg(any(verif_unit = "all", verif_unit = "events_t"))]
            #[kani::proof]
            #[kani::unwind(18)]
            fn $name() {
                $lemma($($arg),*);
                kani::cover!(true);
                $(kani::cover!($cov);)?
            }
        )*};
    }

    // arguments: owner, sub[conn][event], all[conn], requester, event id, cookie known
    inst! {
        q_c04_c11_emit_both_subscribed = emit_event_lemma(0, [[T, F], [T, F]], [F, F], 0, 0, true) => log_len() == 2;
        q_c04_c11_emit_all_events_subscriber = emit_event_lemma(0, [[F, F], [F, F]], [F, T], 0, 1, true) => log_len() == 1;
        q_c04_c11_emit_subscribed_both_ways_once = emit_event_lemma(0, [[F, F], [T, F]], [F, T], 0, 0, true) => log_len() == 1;
        q_c04_c11_emit_other_event_only = emit_event_lemma(0, [[F, F], [F, T]], [F, F], 0, 0, true);
        q_c04_c11_emit_by_non_owner = emit_event_lemma(0, [[T, F], [T, F]], [F, F], 1, 0, true);
        q_c04_c11_emit_unknown_cookie = emit_event_lemma(0, [[T, F], [T, F]], [F, F], 0, 0, false);

        q_c04_c11_subscribe_first = subscribe_event_lemma(0, [[F, F], [F, T]], [F, F], 1, 0, true)
            => count_kind_to(0, K::SubscribeEvent, |x| !x.has_serial) == 1;
        q_c04_c11_subscribe_second = subscribe_event_lemma(0, [[T, F], [F, F]], [F, F], 1, 0, true);
        q_c04_c11_subscribe_again = subscribe_event_lemma(0, [[F, F], [T, F]], [F, F], 1, 0, true);
        q_c04_c11_subscribe_unknown_cookie = subscribe_event_lemma(0, [[F, F], [F, F]], [F, F], 1, 0, false);

        q_c04_c11_unsubscribe_last = unsubscribe_event_lemma(0, [[F, F], [T, T]], [F, F], 1, 0, true)
            => count_kind_to(0, K::UnsubscribeEvent, |_| true) == 1;
        q_c04_c11_unsubscribe_one_of_two = unsubscribe_event_lemma(0, [[T, F], [T, F]], [F, F], 1, 0, true);
        q_c04_c11_unsubscribe_not_subscribed = unsubscribe_event_lemma(0, [[T, F], [F, T]], [F, F], 1, 0, true);
        q_c04_c11_unsubscribe_unknown_cookie = unsubscribe_event_lemma(0, [[F, F], [T, F]], [F, F], 1, 0, false);
    }
    inst_t! {
        t_c04_c11_emit_mixed = emit_event_lemma(1, [[F, T], [T, F]], [T, F], 1, 0, true) => log_len() == 2;
        t_c04_c11_emit_nobody = emit_event_lemma(1, [[F, F], [F, F]], [F, F], 1, 1, true);
        t_c04_c11_subscribe_first_by_owner = subscribe_event_lemma(0, [[F, F], [F, F]], [F, T], 0, 1, true);
        t_c04_c11_subscribe_other_event = subscribe_event_lemma(1, [[T, F], [T, F]], [F, F], 0, 1, true);
        t_c04_c11_unsubscribe_last_by_owner = unsubscribe_event_lemma(0, [[F, T], [F, F]], [F, F], 0, 1, true);
        t_c04_c11_unsubscribe_all_events_subscriber_stays = unsubscribe_event_lemma(1, [[T, F], [F, F]], [F, T], 0, 0, true);
    }

    #[cfg(verif_replay)]
    include!("/verif/.cache/replay/broker__verif__events.rs");
}

#[cfg(verif_unit = "probe")]
mod probe {
    use super::*;

    #[kani::proof]
    #[kani::unwind(18)]
    fn p1_two_conns() {
        let mut w = new_world();
        add_conn(&mut w, 0);
        add_conn(&mut w, 1);
        assert!(w.b.conns.len() == 2);
        std::mem::forget(w);
    }

    #[kani::proof]
    #[kani::unwind(18)]
    fn p2_object() {
        let mut w = new_world();
        add_conn(&mut w, 0);
        add_conn(&mut w, 1);
        add_object(&mut w, 0, 10, 0);
        assert!(w.b.objs.len() == 1);
        std::mem::forget(w);
    }

    #[kani::proof]
    #[kani::unwind(18)]
    fn p3_service() {
        let mut w = new_world();
        add_conn(&mut w, 0);
        add_conn(&mut w, 1);
        add_object(&mut w, 0, 10, 0);
        add_service(&mut w, 0, 10, 0, 20, ServiceInfo::new(1));
        assert!(w.b.svcs.len() == 1);
        std::mem::forget(w);
    }

    #[kani::proof]
    #[kani::unwind(18)]
    fn p4_call() {
        let cw = call_world(0, 1, 1, (true, false, false, false));
        assert!(call_pending(&cw.w, cw.a.serial).is_some());
        std::mem::forget(cw);
    }

    #[kani::proof]
    #[kani::unwind(18)]
    fn p5_reply() {
        let mut cw = call_world(0, 1, 1, (true, false, false, false));
        let serial = cw.a.serial;
        cw.w.b.call_function_reply(&mut cw.w.st, &conn(0), CallFunctionReply { serial, result: CallFunctionResult::InvalidArgs });
        assert!(call_pending(&cw.w, serial).is_none());
        std::mem::forget(cw);
    }

    #[kani::proof]
    #[kani::unwind(18)]
    fn p6_reply_value() {
        let mut cw = call_world(0, 1, 1, (true, false, false, false));
        let serial = cw.a.serial;
        cw.w.b.call_function_reply(&mut cw.w.st, &conn(0), CallFunctionReply { serial, result: CallFunctionResult::Ok(small_value()) });
        assert!(call_pending(&cw.w, serial).is_none());
        std::mem::forget(cw);
    }
}

// =================================================================================================
// C10: bus events for new entities - per-connection de-duplication
// =================================================================================================
#[cfg(any(verif_unit = "all", verif_unit = "bus_events", verif_unit = "bus_events_t"))]
mod bus_events {
    use super::*;
    use aldrin_core::BusListenerFilter;

    /// Two listeners (cookies 40, 41) in this slot order; owners and configuration concrete per
    /// instantiation, the event's ids symbolic.
    fn add_listener(w: &mut World, cookie: u8, owner: u8, scope: Option<BusListenerScope>, filter: Option<BusListenerFilter>) {
        let mut l = BusListener::new(conn(owner));
        if let Some(f) = filter {
            l.add_filter(f);
        }
        if let Some(s) = scope {
            l.start(s);
        }
        w.b.bus_listeners.insert(listener_cookie(cookie), l);
        csv::bus_listeners_mut(w.b.conns.get_mut(&conn(owner)).unwrap()).insert(listener_cookie(cookie));
    }

    fn any_event() -> BusEvent {
        let o = ObjectId::new(obj_uuid(any_below(2)), obj_cookie(kani::any()));
        let s = ServiceId::new(o, svc_uuid(any_below(2)), svc_cookie(kani::any()));
        match kani::any::<u8>() % 4 {
            0 => BusEvent::ObjectCreated(o),
            1 => BusEvent::ObjectDestroyed(o),
            2 => BusEvent::ServiceCreated(s),
            _ => BusEvent::ServiceDestroyed(s),
        }
    }

    /// first listener (visited first) and second listener: (owner, started-with-new?, has a filter that matches everything?)
    fn dedup_lemma(first: (u8, bool, bool), second: (u8, bool, bool)) {
        let mut w = new_world();
        add_conn(&mut w, 0);
        add_conn(&mut w, 1);
        let cfg = |c: (u8, bool, bool)| {
            let scope = if c.1 { Some(if kani::any() { BusListenerScope::New } else { BusListenerScope::All }) } else if kani::any() { Some(BusListenerScope::Current) } else { None };
            (c.0, scope, c.2)
        };
        let ev = any_event();
        let is_obj = matches!(ev, BusEvent::ObjectCreated(_) | BusEvent::ObjectDestroyed(_));
        let all = |m: bool| if m { Some(if is_obj { BusListenerFilter::any_object() } else { BusListenerFilter::any_object_any_service() }) } else if kani::any() { Some(if is_obj { BusListenerFilter::any_object_any_service() } else { BusListenerFilter::any_object() }) } else { None };
        let (o1, s1, m1) = cfg(first);
        let (o2, s2, m2) = cfg(second);
        add_listener(&mut w, 40, o1, s1, all(m1));
        add_listener(&mut w, 41, o2, s2, all(m2));
        w.b.emit_bus_event(&mut w.st, ev);
        let mut c = 0u8;
        while c < 2 {
            let wants = (o1 == c && first.1 && first.2) || (o2 == c && second.1 && second.2);
            let got = count_kind_to(c, K::EmitBusEvent, |e| !e.has_serial);
            assert!(got == if wants && !send_fails(c) { 1 } else { 0 }, "each matching new event exactly once per connection, regardless of how many of its listeners match or in which order they are visited");
            assert!(log_count_to(c) == got);
            c += 1;
        }
        std::mem::forget(w);
    }

    macro_rules! inst {
        ($($name:ident = ($a:expr, $b:expr);)*) => {$(
            #[kani::proof]
            #[kani::unwind(18)]
            fn $name() {
                dedup_lemma($a, $b);
            }
        )*};
    }

    inst! {
        q_c10_c11_bus_event_nonmatching_then_matching_same_conn = ((0, true, false), (0, true, true));
        q_c10_c11_bus_event_unstarted_then_matching_same_conn = ((0, false, true), (0, true, true));
        q_c10_c11_bus_event_both_matching_same_conn = ((0, true, true), (0, true, true));
        q_c10_c11_bus_event_matching_then_nonmatching_same_conn = ((0, true, true), (0, true, false));
        q_c10_c11_bus_event_two_conns_both_matching = ((0, true, true), (1, true, true));
        q_c10_c11_bus_event_two_conns_one_matching = ((1, false, true), (0, true, true));
        q_c10_c11_bus_event_none_matching = ((0, true, false), (1, false, true));
    }

    #[cfg(verif_replay)]
    include!("/verif/.cache/replay/broker__verif__bus_events.rs");
}

// =================================================================================================
// C09 / C03: connection teardown leaves no residue, every affected peer is told once
// =================================================================================================
#[cfg(any(verif_unit = "all", verif_unit = "shutdown", verif_unit = "shutdown_t"))]
mod shutdown {
    use super::*;

    /// Connection 0 leaves. Concrete shape, symbolic scalars (event id, serials, capacities,
    /// versions, peer liveness): it owns object (0, 10) with service (0, 20); connection 1 is
    /// subscribed to one event of that service and has one call pending on it.
    fn owner_leaves(with_sub: bool, with_call: bool) {
        let mut w = new_world();
        add_conn(&mut w, 0);
        add_conn(&mut w, 1);
        add_object(&mut w, 0, 10, 0);
        add_service(&mut w, 0, 10, 0, 20, ServiceInfo::new(1));
        let ev: u32 = kani::any();
        let s: u32 = kani::any();
        let cs: u32 = kani::any();
        if with_sub {
            w.b.svcs.get_mut(&(obj_uuid(0), svc_uuid(0))).unwrap().subscribe_event(ev, conn(1));
            w.b.conns.get_mut(&conn(1)).unwrap().subscribe_event(svc_cookie(20), ev);
        }
        if with_call {
            install_call(&mut w, &CallSpec { present: true, serial: s, caller: 1, caller_serial: cs, aborted: false }, 0);
        }
        let send_shutdown: bool = kani::any();
        w.b.shutdown_connection(&mut w.st, &conn(0), send_shutdown);
        w.b.process_loop_result(&mut w.st);
        // no residue
        assert!(!has_conn(&w, 0));
        assert!(w.b.objs.is_empty() && w.b.obj_uuids.is_empty(), "its objects are gone");
        assert!(w.b.svcs.is_empty() && w.b.svc_uuids.is_empty(), "and their services");
        assert!(smv::elems(&w.b.function_calls).is_empty(), "no pending call survives its service");
        assert!(!w.st.has_work_left());
        if has_conn(&w, 1) {
            let c1 = w.b.conns.get(&conn(1)).unwrap();
            assert!(csv::events(c1).is_empty(), "the peer's subscriptions to the dead service end");
            assert!(csv::calls(c1).is_empty(), "the peer's call bookkeeping is released");
            let destroyed = count_kind_to(1, K::ServiceDestroyed, |e| e.cookie == 20);
            assert!(destroyed == if with_sub { 1 } else { 0 }, "a subscribed peer is told once that the service is gone");
            let replies = count_kind_to(1, K::CallFunctionReply, |e| e.serial == cs && e.code == 3);
            assert!(replies == if with_call { 1 } else { 0 }, "a pending call is answered once with InvalidService");
            assert!(log_count_to(1) == destroyed + replies, "nothing else reaches the peer");
        } else {
            // the peer's transport failed while it was being told: it is torn down as well
            assert!(send_fails(1));
            assert!(w.b.conns.is_empty());
        }
        let to0 = log_count_to(0);
        assert!(to0 == if send_shutdown && !send_fails(0) { 1 } else { 0 });
        if to0 == 1 {
            assert!(find_where(|e| e.to == 0).unwrap().kind == K::Shutdown, "a forced shutdown is announced to the connection");
        }
        std::mem::forget(w);
    }

    /// Connection 1 leaves while subscribed to / calling a service of connection 0: the owner is
    /// told to stop producing the event and to abort the call.
    fn subscriber_leaves() {
        let mut w = new_world();
        add_conn(&mut w, 0);
        add_conn(&mut w, 1);
        add_object(&mut w, 0, 10, 0);
        add_service(&mut w, 0, 10, 0, 20, ServiceInfo::new(1));
        let ev: u32 = kani::any();
        let s: u32 = kani::any();
        let cs: u32 = kani::any();
        w.b.svcs.get_mut(&(obj_uuid(0), svc_uuid(0))).unwrap().subscribe_event(ev, conn(1));
        w.b.conns.get_mut(&conn(1)).unwrap().subscribe_event(svc_cookie(20), ev);
        install_call(&mut w, &CallSpec { present: true, serial: s, caller: 1, caller_serial: cs, aborted: false }, 0);
        let owner_minor = minor_of(&w, 0);
        w.b.shutdown_connection(&mut w.st, &conn(1), false);
        w.b.process_loop_result(&mut w.st);
        assert!(!has_conn(&w, 1) && !w.st.has_work_left());
        if has_conn(&w, 0) {
            assert!(svv::events(w.b.svcs.get(&(obj_uuid(0), svc_uuid(0))).unwrap()).is_empty(), "no subscriber entry of the dead connection stays");
            let unsub = count_kind_to(0, K::UnsubscribeEvent, |e| e.cookie == 20 && e.aux == ev);
            assert!(unsub == 1, "the owner is told to stop producing the event: 1 -> 0 caused by a disconnect");
            let abort = count_kind_to(0, K::AbortFunctionCall, |e| e.serial == s);
            assert!(abort == if owner_minor >= 16 { 1 } else { 0 }, "the owner is told to abort iff it speaks >= 1.16");
            assert!(log_count_to(0) == unsub + abort);
            assert!(call_pending(&w, s) == Some((cs, 1, true)), "the call stays, marked aborted, until the owner answers or its service goes");
        } else {
            assert!(send_fails(0) && w.b.conns.is_empty() && w.b.objs.is_empty() && w.b.svcs.is_empty());
        }
        assert!(log_count_to(1) == 0, "nothing is sent to the connection that left");
        std::mem::forget(w);
    }

    #[kani::proof]
    #[kani::unwind(18)]
    fn q_c09_c03_owner_leaves_with_subscriber() {
        owner_leaves(true, false);
    }

    #[kani::proof]
    #[kani::unwind(18)]
    fn q_c09_c02_owner_leaves_with_pending_call() {
        owner_leaves(false, true);
    }

    #[kani::proof]
    #[kani::unwind(18)]
    fn t_c09_c02_c03_owner_leaves_with_both() {
        owner_leaves(true, true);
    }

    #[kani::proof]
    #[kani::unwind(18)]
    fn q_c09_c02_c04_subscriber_and_caller_leaves() {
        subscriber_leaves();
    }

    #[cfg(verif_replay)]
    include!("/verif/.cache/replay/broker__verif__shutdown.rs");
}

// =================================================================================================
// C11: messages that only a broker may send are refused, nothing else happens
// =================================================================================================
#[cfg(any(verif_unit = "all", verif_unit = "wrongdir", verif_unit = "wrongdir_t"))]
mod wrongdir {
    use super::*;
    use aldrin_core::message::{Connect, Connect2, ConnectReply};

    fn refused(msg: Message) {
        let mut w = gate_world();
        let r = w.b.handle_message(&mut w.st, &conn(0), msg);
        assert!(r.is_err(), "a broker-to-client message sent by a client closes that connection");
        assert!(log_len() == 0 && bus_is_empty(&w), "and has no other effect");
        std::mem::forget(w);
    }

    macro_rules! wrong {
        ($($name:ident = $msg:expr;)*) => {$(
            #[kani::proof]
            #[kani::unwind(18)]
            fn $name() {
                refused($msg);
            }
        )*};
    }

    wrong! {
        q_c11_wrongdir_connect = Message::Connect(Connect { version: kani::any(), value: small_value() });
        q_c11_wrongdir_connect2 = Message::Connect2(Connect2 { major_version: kani::any(), minor_version: kani::any(), value: small_value() });
        q_c11_wrongdir_connect_reply = Message::ConnectReply(ConnectReply::IncompatibleVersion(kani::any()));
        q_c11_wrongdir_create_object_reply = Message::CreateObjectReply(CreateObjectReply { serial: kani::any(), result: CreateObjectResult::DuplicateObject });
        q_c11_wrongdir_destroy_object_reply = Message::DestroyObjectReply(DestroyObjectReply { serial: kani::any(), result: DestroyObjectResult::Ok });
        q_c11_wrongdir_channel_end_closed = Message::ChannelEndClosed(ChannelEndClosed { cookie: chan_cookie(kani::any()), end: ChannelEnd::Sender });
        q_c11_wrongdir_channel_end_claimed = Message::ChannelEndClaimed(ChannelEndClaimed { cookie: chan_cookie(kani::any()), end: ChannelEndWithCapacity::Receiver(kani::any()) });
        q_c11_wrongdir_item_received = Message::ItemReceived(ItemReceived { cookie: chan_cookie(kani::any()), value: small_value() });
        q_c11_wrongdir_sync_reply = Message::SyncReply(SyncReply { serial: kani::any() });
        q_c11_wrongdir_service_destroyed = Message::ServiceDestroyed(ServiceDestroyed { service_cookie: svc_cookie(kani::any()) });
        q_c11_wrongdir_emit_bus_event = Message::EmitBusEvent(EmitBusEvent { cookie: None, event: BusEvent::ObjectCreated(ObjectId::new(obj_uuid(kani::any()), obj_cookie(kani::any()))) });
        q_c11_wrongdir_current_finished = Message::BusListenerCurrentFinished(BusListenerCurrentFinished { cookie: listener_cookie(kani::any()) });
    }

    /// A well-behaved request is still served on the same (untouched) state: Sync is answered.
    #[kani::proof]
    #[kani::unwind(18)]
    fn q_c11_sync_is_answered() {
        let mut w = gate_world();
        let serial: u32 = kani::any();
        let r = w.b.handle_message(&mut w.st, &conn(0), Message::Sync(Sync { serial }));
        assert!(r.is_ok() && log_len() == 1 && log(0).kind == K::SyncReply && log(0).serial == serial && log(0).to == 0);
        std::mem::forget(w);
    }

    #[cfg(verif_replay)]
    include!("/verif/.cache/replay/broker__verif__wrongdir.rs");
}

// =================================================================================================
// C02 / C03 / C12: forwarding a call (call_function / call_function2 -> call_function_impl)
// =================================================================================================
#[cfg(any(verif_unit = "all", verif_unit = "calls_fwd", verif_unit = "calls_fwd_t"))]
mod calls_fwd {
    use super::*;

    /// A call is accepted exactly while the service cookie is live; it is then forwarded exactly
    /// once, to the owner of the service's object, under a broker serial that is not in use, with
    /// cookie / function / requested version / payload unchanged and the payload tagged with the
    /// caller's protocol version; the owner gets the message kind its own version understands
    /// (CallFunction2 iff >= 1.19). The caller's serial is recorded so that exactly one reply can
    /// be routed back; a caller serial that is still in use closes the caller and records nothing.
    /// A dead cookie is answered once with InvalidService under the caller's serial.
    ///
    /// `via2`: the request arrives as CallFunction2 (else as the legacy CallFunction).
    fn call_lemma(ca: u8, who: u8, shape: (bool, bool, bool, bool), known: bool, via2: bool) {
        let owner = 0;
        let mut cw = call_world(owner, ca, ca, shape);
        let serial: u32 = kani::any();
        let function: u32 = kani::any();
        let want: Option<u32> = if via2 && kani::any() { Some(kani::any()) } else { None };
        let cookie = if known { svc_cookie(20) } else { svc_cookie(21) };
        let who_minor = minor_of(&cw.w, who);
        let owner_minor = minor_of(&cw.w, owner);
        let dup = backref(&cw.w, who, serial).is_some();
        let a0 = cw.a;
        let r = if via2 {
            cw.w.b.call_function2(&mut cw.w.st, &conn(who), CallFunction2 { serial, service_cookie: cookie, function, version: want, value: small_value() })
        } else {
            cw.w.b.call_function(&mut cw.w.st, &conn(who), CallFunction { serial, service_cookie: cookie, function, value: small_value() })
        };
        let n_calls = smv::elems(&cw.w.b.function_calls).len();
        let n0 = a0.present as usize;
        if via2 && who_minor < 19 {
            assert!(r.is_err() && log_len() == 0 && n_calls == n0, "CallFunction2 below 1.19 closes the connection");
            assert!(spec_state_unchanged(&cw, &a0));
        } else if !known {
            assert!(n_calls == n0 && spec_state_unchanged(&cw, &a0), "nothing is recorded for a dead cookie");
            if send_fails(who) {
                assert!(r.is_err() && log_len() == 0);
            } else {
                assert!(r.is_ok() && log_len() == 1);
                let rep = log(0);
                assert!(rep.to == who && rep.kind == K::CallFunctionReply && rep.serial == serial && rep.code == 3, "exactly one InvalidService reply under the caller's serial");
            }
            assert!(backref(&cw.w, who, serial).is_some() == dup);
        } else if dup {
            assert!(r.is_err() && log_len() == 0, "a caller serial that is still in use closes the caller");
            assert!(n_calls == n0 && spec_state_unchanged(&cw, &a0), "and leaves no trace");
        } else {
            assert!(r.is_ok());
            assert!(n_calls == n0 + 1, "one new pending call");
            let (s, o) = backref(&cw.w, who, serial).unwrap();
            assert!(o == owner, "the caller's entry names the owner of the service's object");
            assert!(!(a0.present && a0.serial == s), "the broker serial is not one that is in use");
            assert!(call_pending(&cw.w, s) == Some((serial, who, false)));
            assert!(svv::function_calls(cw.w.b.svcs.get(&(obj_uuid(0), svc_uuid(0))).unwrap()).contains(&s));
            assert!(spec_state_unchanged(&cw, &a0), "other pending calls are untouched");
            if send_fails(owner) {
                assert!(log_len() == 0);
                let q = stv::remove_conns(&cw.w.st);
                assert!(q.len() == 1 && q[0].0 == conn(owner), "an owner that cannot be reached is torn down (which answers the call)");
            } else {
                assert!(log_len() == 1, "forwarded exactly once");
                let f = log(0);
                assert!(f.to == owner, "to the owner and to nobody else");
                assert!(f.kind == if owner_minor >= 19 { K::CallFunction2 } else { K::CallFunction }, "in the form the owner's version understands");
                assert!(f.serial == s && f.cookie == 20 && f.aux == function);
                assert!(f.vlen == 2 && f.v0 == 3 && f.v1 == 7, "payload unchanged");
                assert!(f.vminor as u32 == who_minor, "payload tagged with the caller's version");
                if owner_minor >= 19 {
                    assert!(f.has_serial == want.is_some() && (want.is_none() || f.aux2 == want.unwrap()), "requested version passed on");
                }
                assert!(stv::remove_conns(&cw.w.st).is_empty());
            }
        }
        if known {
            kani::cover!(r.is_ok() && log_len() == 1 && log(0).kind == K::CallFunction);
            kani::cover!(r.is_ok() && log_len() == 1 && log(0).kind == K::CallFunction2);
        } else {
            kani::cover!(r.is_ok() && log_len() == 1);
        }
        std::mem::forget(cw);
    }

    macro_rules! inst {
        ($($name:ident = ($ca:expr, $who:expr, $shape:expr, $known:expr, $via2:expr);)*) => {$(
            #[kani::proof]
            #[kani::unwind(18)]
            fn $name() {
                call_lemma($ca, $who, $shape, $known, $via2);
            }
        )*};
    }

    const NONE_PENDING: (bool, bool, bool, bool) = (false, false, false, false);
    const ONE: (bool, bool, bool, bool) = (true, false, false, false);
    const ONE_ABORTED: (bool, bool, bool, bool) = (true, true, false, false);
    inst! {
        q_c02_c03_c12_c11_call_first = (1, 1, NONE_PENDING, true, false);
        q_c02_c03_c12_c11_call2_first = (1, 1, NONE_PENDING, true, true);
        q_c02_c03_c12_c11_call_second_same_caller = (1, 1, ONE, true, false);
        q_c02_c03_c12_c11_call2_second_other_caller = (0, 1, ONE, true, true);
        q_c02_c03_c12_c11_call_self = (0, 0, ONE, true, false);
        q_c02_c03_c12_c11_call_after_abort_serial_reuse = (1, 1, ONE_ABORTED, true, false);
        q_c02_c03_c12_c11_call_dead_cookie = (1, 1, ONE, false, false);
        q_c02_c03_c12_c11_call2_dead_cookie = (1, 1, NONE_PENDING, false, true);
    }

    #[cfg(verif_replay)]
    include!("/verif/.cache/replay/broker__verif__calls_fwd.rs");
}
