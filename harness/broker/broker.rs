//! One-step lemmas on the broker's request handlers. Child module of broker/src/broker.rs, so the
//! private handlers are called directly (not through `handle_event`) on small symbolic states.
//! `cfg(kani)` only.
#![allow(dead_code, unused_imports, unused_variables, missing_debug_implementations, missing_docs, unreachable_pub, unnameable_types)]

use super::channel::verif as chv;
use super::conn_state::verif as csv;
use super::object::verif as obv;
use super::service::verif as svv;
use super::state::verif as stv;
use super::*;
use crate::bus_listener::verif as blv;
use crate::serial_map::verif as smv;
use crate::verif::env::*;
use crate::verif_collections::CAP;

pub(crate) struct World {
    pub b: Broker,
    pub st: State,
}

pub(crate) fn new_world() -> World {
    let mut b = Broker::new();
    let h = b.handle.take();
    std::mem::forget(h);
    World { b, st: State::new() }
}

/// Connection `tag` with an arbitrary negotiated version; its peer may be gone (sends fail).
pub(crate) fn add_conn(w: &mut World, tag: u8) {
    let v = any_version();
    w.b.conns.insert(conn(tag), csv::new_state(tag, v));
    set_send_fails(tag, kani::any());
}

pub(crate) fn add_conn_ok(w: &mut World, tag: u8) {
    let v = any_version();
    w.b.conns.insert(conn(tag), csv::new_state(tag, v));
    set_send_fails(tag, false);
}

pub(crate) fn has_conn(w: &World, tag: u8) -> bool {
    w.b.conns.contains_key(&conn(tag))
}

pub(crate) fn version_of(w: &World, tag: u8) -> ProtocolVersion {
    w.b.conns.get(&conn(tag)).unwrap().version()
}

/// Live object `uuid byte u`, cookie byte `c`, owned by connection `owner` (which must exist).
pub(crate) fn add_object(w: &mut World, u: u8, c: u8, owner: u8) {
    w.b.obj_uuids.insert(obj_cookie(c), obj_uuid(u));
    w.b.objs.insert(obj_uuid(u), Object::new(conn(owner), obj_cookie(c)));
    csv::objects_mut(w.b.conns.get_mut(&conn(owner)).unwrap()).insert(obj_cookie(c));
}

/// Live service on object (u, c): service uuid byte `su`, cookie byte `k`.
pub(crate) fn add_service(w: &mut World, u: u8, c: u8, su: u8, k: u8, info: ServiceInfo) {
    let oid = ObjectId::new(obj_uuid(u), obj_cookie(c));
    w.b.svc_uuids.insert(svc_cookie(k), (oid, svc_uuid(su), info));
    w.b.svcs.insert((obj_uuid(u), svc_uuid(su)), Service::new(svc_cookie(k), obj_cookie(c)));
    obv::svcs_mut(w.b.objs.get_mut(&obj_uuid(u)).unwrap()).insert(svc_cookie(k));
}

pub(crate) fn any_info() -> ServiceInfo {
    let mut i = ServiceInfo::new(kani::any());
    if kani::any() {
        i = i.set_subscribe_all(kani::any());
    }
    i
}

// -------------------------------------------------------------------------------------------------
// registry invariant (C03)
// -------------------------------------------------------------------------------------------------

/// Cross-references between `objs`, `obj_uuids`, `svcs`, `svc_uuids` and the owners' `objects`.
pub(crate) fn inv_reg(b: &Broker) -> bool {
    let mut ok = true;
    let mut i = 0;
    while i < CAP {
        if let Some((uuid, obj)) = &b.objs.slots[i] {
            ok &= b.obj_uuids.get(&obj.cookie()) == Some(uuid);
            match b.conns.get(obj.conn_id()) {
                Some(c) => ok &= csv::objects(c).contains(&obj.cookie()),
                None => ok = false,
            }
            let mut j = 0;
            while j < CAP {
                if let Some(k) = &obv::svcs(obj).slots[j] {
                    match b.svc_uuids.get(k) {
                        Some((oid, su, _)) => {
                            ok &= oid.uuid == *uuid && oid.cookie == obj.cookie();
                            ok &= b.svcs.get(&(*uuid, *su)).map(|s| s.cookie() == *k).unwrap_or(false);
                        }
                        None => ok = false,
                    }
                }
                j += 1;
            }
        }
        if let Some((cookie, uuid)) = &b.obj_uuids.slots[i] {
            ok &= b.objs.get(uuid).map(|o| o.cookie() == *cookie).unwrap_or(false);
        }
        if let Some((k, (oid, su, _))) = &b.svc_uuids.slots[i] {
            match b.objs.get(&oid.uuid) {
                Some(o) => ok &= o.cookie() == oid.cookie && obv::svcs(o).contains(k),
                None => ok = false,
            }
            ok &= b
                .svcs
                .get(&(oid.uuid, *su))
                .map(|s| s.cookie() == *k && s.object_cookie() == oid.cookie)
                .unwrap_or(false);
        }
        if let Some(((u, su), svc)) = &b.svcs.slots[i] {
            ok &= b
                .svc_uuids
                .get(&svc.cookie())
                .map(|(oid, su2, _)| oid.uuid == *u && su2 == su && oid.cookie == svc.object_cookie())
                .unwrap_or(false);
        }
        if let Some((cid, c)) = &b.conns.slots[i] {
            let mut j = 0;
            while j < CAP {
                if let Some(oc) = &csv::objects(c).slots[j] {
                    ok &= b
                        .obj_uuids
                        .get(oc)
                        .and_then(|u| b.objs.get(u))
                        .map(|o| o.conn_id() == cid && o.cookie() == *oc)
                        .unwrap_or(false);
                }
                j += 1;
            }
        }
        i += 1;
    }
    ok
}

/// A small registry world (fits CAP = 2): connections 0 and 1 (both present, each peer possibly
/// gone), up to `max_objs` (<= 2) objects with uuids from the pool {0,1} (distinct), cookies
/// {10,11}, symbolic owners; up to `max_svcs` (<= 2) services on them with service uuids from
/// {0,1}, cookies {20,21}.
pub(crate) fn registry_world(max_objs: u8, max_svcs: u8) -> World {
    let mut w = new_world();
    add_conn(&mut w, 0);
    add_conn(&mut w, 1);
    let mut have = [false; 2];
    if max_objs >= 1 && kani::any() {
        // the first object may carry either uuid
        let u = any_below(2);
        add_object(&mut w, u, 10 + u, any_below(2));
        if u == 0 {
            have[0] = true;
        } else {
            have[1] = true;
        }
        if max_objs >= 2 && kani::any() {
            let u2 = 1 - u;
            add_object(&mut w, u2, 10 + u2, any_below(2));
            have[0] = true;
            have[1] = true;
        }
    }
    let mut used: Option<(u8, u8)> = None;
    let mut j = 0u8;
    while j < 2 {
        if j < max_svcs && kani::any() {
            let o = any_below(2);
            kani::assume(if o == 0 { have[0] } else { have[1] });
            let su = any_below(2);
            // (object, service uuid) pairs are unique
            if let Some(p) = used {
                kani::assume(p != (o, su));
            }
            used = Some((o, su));
            add_service(&mut w, o, 10 + o, su, 20 + j, any_info());
        }
        j += 1;
    }
    // the cookie the RNG will return next: anything that is not in use
    let f: u8 = kani::any();
    kani::assume(f != 10 && f != 11 && f != 20 && f != 21);
    set_fresh(f);
    w
}

pub(crate) fn obj_live(w: &World, u: u8) -> bool {
    w.b.objs.contains_key(&obj_uuid(u))
}

pub(crate) fn obj_owner(w: &World, u: u8) -> Option<u8> {
    w.b.objs.get(&obj_uuid(u)).map(|o| o.conn_id().0)
}

pub(crate) fn svc_live(w: &World, k: u8) -> bool {
    w.b.svc_uuids.contains_key(&svc_cookie(k))
}

// =================================================================================================
// C03: registry lemmas (concrete shape, symbolic scalars)
// =================================================================================================

/// (object uuid byte, object cookie byte, owner tag)
pub(crate) type ObjSpec = (u8, u8, u8);
/// (object uuid byte, object cookie byte, service uuid byte, service cookie byte)
pub(crate) type SvcSpec = (u8, u8, u8, u8);

#[derive(Clone, Copy)]
pub(crate) struct RegShape {
    pub objs: &'static [ObjSpec],
    pub svcs: &'static [SvcSpec],
}

/// Connections 0 and 1 (arbitrary versions, each peer possibly gone) and exactly the objects and
/// services of `shape` (at most two of each: the model maps hold CAP = 2 entries). The *shape* of
/// the registry is concrete per harness - a symbolic shape (optional entries, symbolic owners) ran
/// every lemma out of memory or time, DESIGN 8.1 - while serials, versions, service versions,
/// peer liveness and the cookie the RNG returns next are symbolic.
pub(crate) fn reg_world(shape: RegShape) -> World {
    let mut w = new_world();
    add_conn(&mut w, 0);
    add_conn(&mut w, 1);
    let mut i = 0;
    while i < shape.objs.len() {
        let (u, c, o) = shape.objs[i];
        add_object(&mut w, u, c, o);
        i += 1;
    }
    let mut i = 0;
    while i < shape.svcs.len() {
        let (u, c, su, k) = shape.svcs[i];
        add_service(&mut w, u, c, su, k, ServiceInfo::new(kani::any()));
        i += 1;
    }
    // the cookie the RNG will return next: anything that is not in use (freshness of UUIDv4 is assumed)
    let f: u8 = kani::any();
    kani::assume(f >= 0x80);
    set_fresh(f);
    w
}

pub(crate) fn obj_state(w: &World, u: u8) -> Option<(u8, u8)> {
    w.b.objs.get(&obj_uuid(u)).map(|o| (last_byte(o.cookie()), o.conn_id().0))
}

/// the object of `spec` is registered consistently in all three places
pub(crate) fn obj_intact(w: &World, spec: ObjSpec) -> bool {
    let (u, c, o) = spec;
    obj_state(w, u) == Some((c, o))
        && w.b.obj_uuids.get(&obj_cookie(c)) == Some(&obj_uuid(u))
        && w.b.conns.get(&conn(o)).map(|cs| csv::objects(cs).contains(&obj_cookie(c))).unwrap_or(false)
}

pub(crate) fn obj_gone(w: &World, spec: ObjSpec) -> bool {
    let (u, c, o) = spec;
    !w.b.objs.contains_key(&obj_uuid(u))
        && !w.b.obj_uuids.contains_key(&obj_cookie(c))
        && !w.b.conns.get(&conn(o)).map(|cs| csv::objects(cs).contains(&obj_cookie(c))).unwrap_or(false)
}

pub(crate) fn svc_intact(w: &World, spec: SvcSpec) -> bool {
    let (u, c, su, k) = spec;
    let a = w.b.svc_uuids.get(&svc_cookie(k)).map(|(oid, s, _)| oid.uuid == obj_uuid(u) && oid.cookie == obj_cookie(c) && *s == svc_uuid(su)).unwrap_or(false);
    let b = w.b.svcs.get(&(obj_uuid(u), svc_uuid(su))).map(|s| s.cookie() == svc_cookie(k) && s.object_cookie() == obj_cookie(c)).unwrap_or(false);
    let c2 = w.b.objs.get(&obj_uuid(u)).map(|o| obv::svcs(o).contains(&svc_cookie(k))).unwrap_or(false);
    a && b && c2
}

pub(crate) fn svc_gone(w: &World, spec: SvcSpec) -> bool {
    let (u, _c, su, k) = spec;
    !w.b.svc_uuids.contains_key(&svc_cookie(k))
        && !w.b.svcs.contains_key(&(obj_uuid(u), svc_uuid(su)))
        && !w.b.objs.get(&obj_uuid(u)).map(|o| obv::svcs(o).contains(&svc_cookie(k))).unwrap_or(false)
}

/// everything of the shape except the listed object / service cookies is untouched
pub(crate) fn rest_intact(w: &World, shape: RegShape, except_obj: u8, except_svc: u8) -> bool {
    let mut ok = true;
    let mut i = 0;
    while i < shape.objs.len() {
        if shape.objs[i].1 != except_obj {
            ok &= obj_intact(w, shape.objs[i]);
        }
        i += 1;
    }
    let mut i = 0;
    while i < shape.svcs.len() {
        if shape.svcs[i].3 != except_svc && shape.svcs[i].1 != except_obj {
            ok &= svc_intact(w, shape.svcs[i]);
        }
        i += 1;
    }
    ok
}

pub(crate) fn no_events_queued(w: &World) -> bool {
    stv::create_object(&w.st).is_empty() && stv::destroy_object(&w.st).is_empty() && stv::create_service(&w.st).is_empty() && stv::destroy_service(&w.st).is_empty()
}

#[cfg(any(verif_unit = "all", verif_unit = "registry", verif_unit = "registry_t"))]
mod registry {
    use super::*;

    const NO_OBJ: u8 = 0xff;
    const NO_SVC: u8 = 0xff;

    pub(crate) const EMPTY: RegShape = RegShape { objs: &[], svcs: &[] };
    /// one object of connection 0
    pub(crate) const ONE: RegShape = RegShape { objs: &[(0, 10, 0)], svcs: &[] };
    /// one object of connection 0 with one service
    pub(crate) const ONE_SVC: RegShape = RegShape { objs: &[(0, 10, 0)], svcs: &[(0, 10, 0, 20)] };
    /// one object of connection 0 with two services
    pub(crate) const TWO_SVCS: RegShape = RegShape { objs: &[(0, 10, 0)], svcs: &[(0, 10, 0, 20), (0, 10, 1, 21)] };
    /// one object per connection, one service each (same service uuid on both)
    pub(crate) const TWO_OWNERS: RegShape = RegShape { objs: &[(0, 10, 0), (1, 11, 1)], svcs: &[(0, 10, 0, 20), (1, 11, 0, 21)] };

    /// CreateObject: ok with the fresh cookie exactly when no live object has the uuid, else
    /// DuplicateObject; exactly one reply under the request's serial; a requester that cannot be
    /// answered is closed and nothing is registered for it; unknown senders are ignored.
    fn create_object_lemma(shape: RegShape, who: u8, u: u8) {
        let mut w = reg_world(shape);
        let serial: u32 = kani::any();
        let live0 = obj_state(&w, u);
        let n0 = w.b.objs.len();
        let r = w.b.create_object(&mut w.st, &conn(who), CreateObject { serial, uuid: obj_uuid(u) });
        if who == 2 {
            assert!(r.is_ok() && log_len() == 0 && no_events_queued(&w), "unknown sender: ignored");
            assert!(w.b.objs.len() == n0);
        } else if send_fails(who) {
            assert!(r.is_err() && log_len() == 0, "the requester is gone: close it");
            assert!(obj_state(&w, u) == live0 && w.b.objs.len() == n0 && w.b.obj_uuids.len() == n0, "nothing is registered for a requester that cannot be answered");
            assert!(!csv::objects(w.b.conns.get(&conn(who)).unwrap()).contains(&obj_cookie(fresh())));
            assert!(no_events_queued(&w));
        } else {
            assert!(r.is_ok() && log_len() == 1 && log(0).to == who, "exactly one reply, to the requester");
            let rep = log(0);
            assert!(rep.kind == K::CreateObjectReply && rep.serial == serial);
            if live0.is_none() {
                assert!(rep.code == 0 && rep.cookie == fresh(), "ok with a fresh cookie when the uuid is free");
                assert!(obj_intact(&w, (u, fresh(), who)), "registered for the requester, in all three places");
                assert!(w.b.objs.len() == n0 + 1 && w.b.obj_uuids.len() == n0 + 1);
                let q = stv::create_object(&w.st);
                assert!(q.len() == 1 && q[0] == ObjectId::new(obj_uuid(u), obj_cookie(fresh())), "one creation event queued");
            } else {
                assert!(rep.code == 1, "DuplicateObject exactly when a live object has the uuid");
                assert!(obj_state(&w, u) == live0 && w.b.objs.len() == n0 && w.b.obj_uuids.len() == n0);
                assert!(no_events_queued(&w));
            }
        }
        assert!(rest_intact(&w, shape, NO_OBJ, NO_SVC), "existing objects and services are untouched");
        // covers in a branch that is dead for an instance would be reported unsatisfiable
        // (no reachability checks, DESIGN 8.4): the instance condition is part of the cover
        kani::cover!(who >= 2 || !send_fails(who));
        kani::cover!(who >= 2 || send_fails(who));
        std::mem::forget(w);
    }

    /// DestroyObject: Ok iff live and owned by the requester (then the object and all its services
    /// are gone from every map and one destruction event is queued for each), ForeignObject iff live
    /// and owned by somebody else, InvalidObject iff not live; nothing else changes.
    fn destroy_object_lemma(shape: RegShape, who: u8, c: u8) {
        let mut w = reg_world(shape);
        let serial: u32 = kani::any();
        let mut target: Option<ObjSpec> = None;
        let mut i = 0;
        while i < shape.objs.len() {
            if shape.objs[i].1 == c {
                target = Some(shape.objs[i]);
            }
            i += 1;
        }
        let r = w.b.destroy_object(&mut w.st, &conn(who), DestroyObject { serial, cookie: obj_cookie(c) });
        if who == 2 {
            assert!(r.is_ok() && log_len() == 0 && no_events_queued(&w) && rest_intact(&w, shape, NO_OBJ, NO_SVC));
        } else if send_fails(who) {
            assert!(r.is_err() && log_len() == 0);
            assert!(no_events_queued(&w) && rest_intact(&w, shape, NO_OBJ, NO_SVC), "nothing is destroyed when the reply cannot be delivered");
        } else {
            assert!(r.is_ok() && log_len() == 1 && log(0).to == who);
            let rep = log(0);
            assert!(rep.kind == K::DestroyObjectReply && rep.serial == serial);
            match target {
                None => {
                    assert!(rep.code == 1, "InvalidObject for a cookie that is not live");
                    assert!(no_events_queued(&w) && rest_intact(&w, shape, NO_OBJ, NO_SVC));
                }
                Some(t) if t.2 != who => {
                    assert!(rep.code == 2, "only the owner can destroy an object");
                    assert!(no_events_queued(&w) && rest_intact(&w, shape, NO_OBJ, NO_SVC));
                }
                Some(t) => {
                    assert!(rep.code == 0);
                    assert!(obj_gone(&w, t), "the object is gone from every map");
                    let mut n = 0;
                    let mut i = 0;
                    while i < shape.svcs.len() {
                        if shape.svcs[i].1 == c {
                            assert!(svc_gone(&w, shape.svcs[i]), "destroying an object destroys all its services");
                            let k = shape.svcs[i].3;
                            let q = stv::destroy_service(&w.st);
                            let mut hits = 0;
                            let mut j = 0;
                            while j < q.len() {
                                if q[j].cookie == svc_cookie(k) {
                                    hits += 1;
                                }
                                j += 1;
                            }
                            assert!(hits == 1, "one destruction event per service");
                            n += 1;
                        }
                        i += 1;
                    }
                    assert!(stv::destroy_service(&w.st).len() == n);
                    let q = stv::destroy_object(&w.st);
                    assert!(q.len() == 1 && q[0] == ObjectId::new(obj_uuid(t.0), obj_cookie(c)));
                    assert!(stv::create_object(&w.st).is_empty() && stv::create_service(&w.st).is_empty());
                    assert!(rest_intact(&w, shape, c, NO_SVC), "other objects and their services are untouched");
                }
            }
        }
        kani::cover!(who >= 2 || !send_fails(who));
        std::mem::forget(w);
    }

    /// the result the state dictates, in the code's order InvalidObject > DuplicateService > ForeignObject
    /// (digest codes: 0 ok, 1 duplicate, 2 invalid object, 3 foreign)
    fn expected_create_service(shape: RegShape, who: u8, oc: u8, su: u8) -> u8 {
        let mut obj: Option<ObjSpec> = None;
        let mut i = 0;
        while i < shape.objs.len() {
            if shape.objs[i].1 == oc {
                obj = Some(shape.objs[i]);
            }
            i += 1;
        }
        let Some(o) = obj else { return 2 };
        let mut i = 0;
        while i < shape.svcs.len() {
            if shape.svcs[i].0 == o.0 && shape.svcs[i].2 == su {
                return 1;
            }
            i += 1;
        }
        if o.2 != who {
            return 3;
        }
        0
    }

    /// CreateService: the four outcomes exactly as the state dictates; on Ok the service is
    /// registered under the fresh cookie on the requester's object in all three places and one
    /// creation event is queued; otherwise (and when the reply cannot be delivered) nothing changes.
    fn create_service_lemma(shape: RegShape, who: u8, oc: u8, su: u8) {
        let mut w = reg_world(shape);
        let serial: u32 = kani::any();
        let version: u32 = kani::any();
        let expect = expected_create_service(shape, who, oc, su);
        let n0 = w.b.svcs.len();
        let r = w.b.create_service(&mut w.st, &conn(who), CreateService { serial, object_cookie: obj_cookie(oc), uuid: svc_uuid(su), version });
        if send_fails(who) {
            assert!(r.is_err() && log_len() == 0);
            assert!(w.b.svcs.len() == n0 && w.b.svc_uuids.len() == n0 && no_events_queued(&w), "no service is registered for a requester that is gone");
        } else {
            assert!(r.is_ok() && log_len() == 1 && log(0).to == who, "exactly one reply, to the requester");
            let rep = log(0);
            assert!(rep.kind == K::CreateServiceReply && rep.serial == serial);
            assert!(rep.code == expect, "ok / duplicate / invalid object / foreign exactly as the registry dictates");
            if expect == 0 {
                assert!(rep.cookie == fresh());
                let mut u = 0;
                let mut i = 0;
                while i < shape.objs.len() {
                    if shape.objs[i].1 == oc {
                        u = shape.objs[i].0;
                    }
                    i += 1;
                }
                assert!(svc_intact(&w, (u, oc, su, fresh())), "registered on the requester's object, in all three places");
                assert!(w.b.svc_uuids.get(&svc_cookie(fresh())).unwrap().2.version() == version);
                assert!(w.b.svcs.len() == n0 + 1 && w.b.svc_uuids.len() == n0 + 1);
                let q = stv::create_service(&w.st);
                assert!(q.len() == 1 && q[0] == ServiceId::new(ObjectId::new(obj_uuid(u), obj_cookie(oc)), svc_uuid(su), svc_cookie(fresh())));
            } else {
                assert!(w.b.svcs.len() == n0 && w.b.svc_uuids.len() == n0 && no_events_queued(&w));
            }
        }
        assert!(rest_intact(&w, shape, NO_OBJ, NO_SVC), "existing objects and services are untouched");
        kani::cover!(!send_fails(who));
        kani::cover!(send_fails(who));
        std::mem::forget(w);
    }

    /// DestroyService: Ok iff live and its object is owned by the requester; then only that
    /// service is gone and one destruction event is queued.
    fn destroy_service_lemma(shape: RegShape, who: u8, k: u8) {
        let mut w = reg_world(shape);
        let serial: u32 = kani::any();
        let mut target: Option<SvcSpec> = None;
        let mut owner = 0xff;
        let mut i = 0;
        while i < shape.svcs.len() {
            if shape.svcs[i].3 == k {
                target = Some(shape.svcs[i]);
                let mut j = 0;
                while j < shape.objs.len() {
                    if shape.objs[j].1 == shape.svcs[i].1 {
                        owner = shape.objs[j].2;
                    }
                    j += 1;
                }
            }
            i += 1;
        }
        let r = w.b.destroy_service(&mut w.st, &conn(who), DestroyService { serial, cookie: svc_cookie(k) });
        if send_fails(who) {
            assert!(r.is_err() && log_len() == 0 && no_events_queued(&w) && rest_intact(&w, shape, NO_OBJ, NO_SVC));
        } else {
            assert!(r.is_ok() && log_len() == 1 && log(0).to == who);
            let rep = log(0);
            assert!(rep.kind == K::DestroyServiceReply && rep.serial == serial);
            match target {
                None => assert!(rep.code == 1 && no_events_queued(&w) && rest_intact(&w, shape, NO_OBJ, NO_SVC)),
                Some(_) if owner != who => assert!(rep.code == 2 && no_events_queued(&w) && rest_intact(&w, shape, NO_OBJ, NO_SVC), "only the owner of the object can destroy its service"),
                Some(t) => {
                    assert!(rep.code == 0 && svc_gone(&w, t));
                    let q = stv::destroy_service(&w.st);
                    assert!(q.len() == 1 && q[0].cookie == svc_cookie(k) && q[0].uuid == svc_uuid(t.2));
                    assert!(stv::destroy_object(&w.st).is_empty() && stv::create_service(&w.st).is_empty());
                    assert!(rest_intact(&w, shape, NO_OBJ, k), "the object and its other services stay");
                }
            }
        }
        kani::cover!(!send_fails(who));
        std::mem::forget(w);
    }

    /// Queries succeed exactly while the service is live: QueryServiceVersion returns the
    /// registered version, SubscribeService (>= 1.18) records the subscription on both sides.
    fn queries_lemma(shape: RegShape, who: u8, k: u8) {
        let mut w = reg_world(shape);
        set_send_fails(who, false);
        let serial: u32 = kani::any();
        let live = w.b.svc_uuids.get(&svc_cookie(k)).map(|(_, _, i)| i.version());
        let r = w.b.query_service_version(&conn(who), QueryServiceVersion { serial, cookie: svc_cookie(k) });
        assert!(r.is_ok() && log_len() == 1 && log(0).to == who);
        let rep = log(0);
        assert!(rep.kind == K::QueryServiceVersionReply && rep.serial == serial);
        match live {
            Some(v) => assert!(rep.code == 0 && rep.aux == v),
            None => assert!(rep.code == 1),
        }
        let minor = minor_of(&w, who);
        let serial2: u32 = kani::any();
        let r = w.b.subscribe_service(&conn(who), SubscribeService { serial: serial2, service_cookie: svc_cookie(k) });
        if minor < 18 {
            assert!(r.is_err() && log_len() == 1);
        } else {
            assert!(r.is_ok() && log_len() == 2 && log(1).to == who && log(1).kind == K::SubscribeServiceReply && log(1).serial == serial2);
            assert!(log(1).code == if live.is_some() { 0 } else { 1 });
            let recorded = csv::subscriptions(w.b.conns.get(&conn(who)).unwrap()).contains(&svc_cookie(k));
            assert!(recorded == live.is_some(), "a subscription is recorded exactly for a live service");
        }
        assert!(rest_intact(&w, shape, NO_OBJ, NO_SVC) && no_events_queued(&w));
        kani::cover!(minor >= 18);
        std::mem::forget(w);
    }

    macro_rules! inst {
        ($($name:ident = $lemma:ident($($arg:expr),*);)*) => {$(
            #[kani::proof]
            #[kani::unwind(18)]
            #[kani::stub(aldrin_core::ObjectCookie::new_v4, fresh_obj_cookie)]
            #[kani::stub(aldrin_core::ServiceCookie::new_v4, fresh_svc_cookie)]
            fn $name() {
                $lemma($($arg),*);
            }
        )*};
    }

    inst! {
        q_c03_c11_create_object_free_uuid = create_object_lemma(EMPTY, 0, 0);
        q_c03_c11_create_object_duplicate = create_object_lemma(ONE, 1, 0);
        q_c03_c11_destroy_object_foreign = destroy_object_lemma(TWO_OWNERS, 0, 11);
        q_c03_c11_destroy_object_without_services = destroy_object_lemma(ONE, 0, 10);
        q_c03_c11_create_service_ok = create_service_lemma(ONE, 0, 10, 0);
        q_c03_c11_create_service_duplicate_before_foreign = create_service_lemma(ONE_SVC, 1, 10, 0);
        q_c03_c11_queries_live = queries_lemma(ONE_SVC, 1, 20);
    }
    #[cfg(not(verif_quick))]
    inst! {
        t_c03_c11_create_object_second = create_object_lemma(ONE, 1, 1);
        t_c03_c11_create_object_same_owner_duplicate = create_object_lemma(ONE_SVC, 0, 0);
        t_c03_c11_create_object_unknown_sender = create_object_lemma(ONE, 2, 1);
        t_c03_c11_destroy_object_by_other = destroy_object_lemma(TWO_SVCS, 1, 10);
        t_c03_c11_destroy_object_invalid = destroy_object_lemma(TWO_SVCS, 0, 12);
        t_c03_c11_destroy_object_unknown_sender = destroy_object_lemma(ONE_SVC, 2, 10);
        t_c03_c11_create_service_second = create_service_lemma(ONE_SVC, 0, 10, 1);
        t_c03_c11_create_service_duplicate = create_service_lemma(ONE_SVC, 0, 10, 0);
        t_c03_c11_create_service_foreign = create_service_lemma(ONE_SVC, 1, 10, 1);
        t_c03_c11_create_service_invalid_object = create_service_lemma(ONE_SVC, 0, 12, 0);
        t_c03_c11_create_service_foreign_two_owners = create_service_lemma(TWO_OWNERS, 0, 11, 1);
        t_c03_c11_destroy_service_foreign = destroy_service_lemma(TWO_SVCS, 1, 20);
        t_c03_c11_destroy_service_invalid = destroy_service_lemma(TWO_SVCS, 0, 22);
        t_c03_c11_destroy_service_other_owner = destroy_service_lemma(TWO_OWNERS, 0, 21);
        t_c03_c11_queries_dead = queries_lemma(ONE_SVC, 1, 21);
        t_c03_c11_queries_by_owner = queries_lemma(TWO_OWNERS, 1, 21);
    }

    // Not registered (cfg verif_experimental): every instance in which a destroy request succeeds
    // runs `remove_service` / `remove_object`; CBMC's symbolic execution finishes (240 s, 790k
    // steps) but the SAT back end runs out of memory during propositional reduction (> 20 GB),
    // with one service and no subscribers already. The refusal paths above (foreign, invalid,
    // unknown sender, reply cannot be delivered) are decided; "destroying an object destroys all
    // its services" is NOT.
    #[cfg(verif_experimental)]
    inst! {
        q_c03_c11_destroy_object_cascade = destroy_object_lemma(ONE_SVC, 0, 10);
        q_c03_c11_destroy_service_ok = destroy_service_lemma(ONE_SVC, 0, 20);
        t_c03_c11_destroy_object_cascade_two_services = destroy_object_lemma(TWO_SVCS, 0, 10);
        t_c03_c11_destroy_object_keeps_other_owner = destroy_object_lemma(TWO_OWNERS, 0, 10);
        t_c03_c11_destroy_service_first_of_two = destroy_service_lemma(TWO_SVCS, 0, 20);
        t_c03_c11_destroy_service_second = destroy_service_lemma(TWO_SVCS, 0, 21);
    }

    #[cfg(verif_replay)]
    include!("/verif/.cache/replay/broker__verif__registry.rs");
}

// =================================================================================================
// C05 / C11: channel handlers
// =================================================================================================

/// One channel (cookie byte 30) in an arbitrary state satisfying the `Channel` invariant, with the
/// owners' `senders` / `receivers` sets consistent with it; connections 0, 1, 2 all present.
pub(crate) fn channel_world() -> World {
    let mut w = new_world();
    add_conn(&mut w, 0);
    add_conn(&mut w, 1);
    add_conn(&mut w, 2);
    if kani::any() {
        let ch = chv::any_channel();
        if let Some((o, _)) = chv::sender_claimed(&ch) {
            csv::senders_mut(w.b.conns.get_mut(&o).unwrap()).insert(chan_cookie(30));
        }
        if let Some((o, _)) = chv::receiver_claimed(&ch) {
            csv::receivers_mut(w.b.conns.get_mut(&o).unwrap()).insert(chan_cookie(30));
        }
        w.b.channels.insert(chan_cookie(30), ch);
    }
    let f: u8 = kani::any();
    kani::assume(f != 30);
    set_fresh(f);
    w
}

/// Concrete shape, symbolic scalars (DESIGN.md 8.1: a symbolic *shape* of the broker state does not
/// finish): connections 0 and 1 (arbitrary versions, each peer possibly gone), channel 30 with the
/// given end states (capacities symbolic, constrained by the `Channel` invariant only).
pub(crate) fn channel_world_shape(sd: chv::EndSpec, rc: chv::EndSpec) -> World {
    let mut w = new_world();
    add_conn(&mut w, 0);
    add_conn(&mut w, 1);
    let ch = chv::mk_channel(sd, rc);
    if let chv::EndSpec::C(o) = sd {
        csv::senders_mut(w.b.conns.get_mut(&conn(o)).unwrap()).insert(chan_cookie(30));
    }
    if let chv::EndSpec::C(o) = rc {
        csv::receivers_mut(w.b.conns.get_mut(&conn(o)).unwrap()).insert(chan_cookie(30));
    }
    w.b.channels.insert(chan_cookie(30), ch);
    let f: u8 = kani::any();
    kani::assume(f != 30);
    set_fresh(f);
    w
}

/// channel map and the per-connection end sets agree, and every stored channel satisfies `Inv`
pub(crate) fn inv_chan(b: &Broker) -> bool {
    let mut ok = true;
    let mut i = 0;
    while i < CAP {
        if let Some((cookie, ch)) = &b.channels.slots[i] {
            ok &= chv::inv(ch);
            if let Some((o, _)) = chv::sender_claimed(ch) {
                ok &= b.conns.get(&o).map(|c| csv::senders(c).contains(cookie)).unwrap_or(false);
            }
            if let Some((o, _)) = chv::receiver_claimed(ch) {
                ok &= b.conns.get(&o).map(|c| csv::receivers(c).contains(cookie)).unwrap_or(false);
            }
        }
        if let Some((cid, c)) = &b.conns.slots[i] {
            let mut j = 0;
            while j < CAP {
                if let Some(k) = &csv::senders(c).slots[j] {
                    ok &= b.channels.get(k).map(|ch| chv::sender_claimed(ch).map(|(o, _)| o == *cid).unwrap_or(false)).unwrap_or(false);
                }
                if let Some(k) = &csv::receivers(c).slots[j] {
                    ok &= b.channels.get(k).map(|ch| chv::receiver_claimed(ch).map(|(o, _)| o == *cid).unwrap_or(false)).unwrap_or(false);
                }
                j += 1;
            }
        }
        i += 1;
    }
    ok
}

fn chan_ends(w: &World) -> Option<(Option<(ConnectionId, u32)>, Option<(ConnectionId, u32)>, bool, bool)> {
    w.b.channels.get(&chan_cookie(30)).map(|ch| {
        (
            chv::sender_claimed(ch),
            chv::receiver_claimed(ch),
            chv::sender_unclaimed(ch),
            chv::receiver_unclaimed(ch),
        )
    })
}

fn count_kind_to(to: u8, kind: K, pred: impl Fn(&LogEntry) -> bool) -> usize {
    count_where(|e| e.to == to && e.kind == kind && pred(e))
}

#[cfg(any(verif_unit = "all", verif_unit = "chan_handlers", verif_unit = "chan_handlers_t"))]
mod chan_handlers {
    use super::*;

    fn send_item_lemma(sd: chv::EndSpec, rc: chv::EndSpec, who: u8, known: bool) {
        let mut w = channel_world_shape(sd, rc);
        let cookie = if known { chan_cookie(30) } else { chan_cookie(31) };
        assert!(inv_chan(&w.b));
        let pre = if cookie == chan_cookie(30) { chan_ends(&w) } else { None };
        let fails_who = send_fails(who);
        let value = aldrin_core::SerializedValue::serialize(7u8).unwrap();
        let r = w.b.send_item(&mut w.st, &conn(who), SendItem { cookie, value });
        match pre {
            None => assert!(r.is_ok() && log_len() == 0, "unknown channel: ignored"),
            Some((s0, r0, _, r_unclaimed)) => {
                let sender_ok = s0.map(|(o, _)| o == conn(who)).unwrap_or(false);
                if !sender_ok {
                    assert!(r.is_ok() && log_len() == 0, "items from anyone but the sender's owner are dropped");
                    assert!(chan_ends(&w).map(|(a, b, _, _)| (a, b)) == Some((s0, r0)));
                } else if let Some((ro, rc)) = r0 {
                    let (_, sc) = s0.unwrap();
                    if sc > 0 {
                        // within the announced capacity: forwarded exactly once, payload unchanged
                        let fwd = count_kind_to(ro.0, K::ItemReceived, |e| e.cookie == 30 && e.vlen == 2 && e.v1 == 7);
                        assert!(fwd == if send_fails(ro.0) { 0 } else { 1 });
                        assert!(rc > 0, "never forwarded beyond what the receiver granted");
                        let topup = count_kind_to(who, K::AddChannelCapacity, |e| e.cookie == 30);
                        assert!(topup <= 1);
                        assert!(chan_ends(&w).is_some(), "a sender within its capacity is never cut off");
                        let (s1, r1, _, _) = chan_ends(&w).unwrap();
                        assert!(s1.map(|(o, _)| o) == Some(conn(who)) && r1 == Some((ro, rc - 1)));
                        assert!(r.is_ok() || (fails_who && topup == 0));
                    } else {
                        // beyond the capacity: nothing forwarded, only the sender's end is closed
                        assert!(r.is_ok());
                        assert!(count_kind_to(ro.0, K::ItemReceived, |e| e.cookie == 30 && e.vlen == 2 && e.v1 == 7) == 0);
                        let told = count_kind_to(ro.0, K::ChannelEndClosed, |e| e.code == 0);
                        assert!(told == if send_fails(ro.0) { 0 } else { 1 }, "the receiver is told once that the sender end is closed");
                        let (s1, r1, _, _) = chan_ends(&w).unwrap();
                        assert!(s1.is_none() && r1 == Some((ro, rc)), "the receiver keeps its end");
                    }
                } else if r_unclaimed {
                    // receiver not claimed yet: sending is a protocol violation, the channel goes away
                    assert!(r.is_ok());
                    assert!(chan_ends(&w).is_none());
                } else {
                    // receiver closed: item dropped
                    assert!(r.is_ok() && log_len() == 0);
                }
            }
        }
        assert!(inv_chan(&w.b), "channel bookkeeping stays consistent");
        std::mem::forget(w);
    }

    fn add_channel_capacity_lemma(sd: chv::EndSpec, rc: chv::EndSpec, who: u8, known: bool) {
        let mut w = channel_world_shape(sd, rc);
        let cookie = if known { chan_cookie(30) } else { chan_cookie(31) };
        let capacity: u32 = kani::any();
        let pre = if cookie == chan_cookie(30) { chan_ends(&w) } else { None };
        w.b.add_channel_capacity(&mut w.st, &conn(who), AddChannelCapacity { cookie, capacity });
        match pre {
            None => assert!(log_len() == 0),
            Some((s0, r0, _, _)) => {
                let owner_grant = capacity > 0 && r0.map(|(o, _)| o == conn(who)).unwrap_or(false);
                if !owner_grant {
                    assert!(log_len() == 0, "grants of 0 or by anyone but the receiver's owner are ignored");
                    assert!(chan_ends(&w).map(|(a, b, _, _)| (a, b)) == Some((s0, r0)), "and change nothing");
                } else {
                    let (ro, rc) = r0.unwrap();
                    match rc.checked_add(capacity) {
                        None => {
                            // overflow closes only the receiver
                            match s0 {
                                Some((so, sc)) => {
                                    let (s1, r1, _, _) = chan_ends(&w).unwrap();
                                    assert!(s1 == Some((so, sc)) && r1.is_none());
                                    let told = count_kind_to(so.0, K::ChannelEndClosed, |e| e.code == 1);
                                    assert!(told == if send_fails(so.0) { 0 } else { 1 });
                                }
                                None => assert!(chan_ends(&w).is_none()),
                            }
                            assert!(!csv::receivers(w.b.conns.get(&ro).unwrap()).contains(&chan_cookie(30)));
                        }
                        Some(nr) => {
                            let (s1, r1, _, _) = chan_ends(&w).unwrap();
                            assert!(r1 == Some((ro, nr)));
                            if let Some((so, sc)) = s0 {
                                let ann = count_kind_to(so.0, K::AddChannelCapacity, |e| e.cookie == 30);
                                if sc <= 4 {
                                    assert!(s1 == Some((so, nr)), "a sender running low is topped up to the receiver's level");
                                    assert!(ann == if send_fails(so.0) { 0 } else { 1 });
                                } else {
                                    assert!(s1 == Some((so, sc)) && ann == 0);
                                }
                            }
                        }
                    }
                }
            }
        }
        assert!(inv_chan(&w.b));
        std::mem::forget(w);
    }

    fn claim_channel_end_lemma(sd: chv::EndSpec, rc: chv::EndSpec, who: u8, known: bool, as_sender: bool) {
        let mut w = channel_world_shape(sd, rc);
        let cookie = if known { chan_cookie(30) } else { chan_cookie(31) };
        set_send_fails(who, false);
        let serial: u32 = kani::any();
        let cap: u32 = kani::any();
        let end = if as_sender { ChannelEndWithCapacity::Sender } else { ChannelEndWithCapacity::Receiver(cap) };
        let pre = if cookie == chan_cookie(30) { chan_ends(&w) } else { None };
        let r = w.b.claim_channel_end(&mut w.st, &conn(who), ClaimChannelEnd { serial, cookie, end });
        assert!(r.is_ok());
        let replies = count_kind_to(who, K::ClaimChannelEndReply, |e| e.serial == serial);
        assert!(replies == 1, "exactly one reply to the claimer");
        let rep = find_where(|e| e.kind == K::ClaimChannelEndReply).unwrap();
        match pre {
            None => assert!(rep.code == 2 && log_len() == 1),
            Some((s0, r0, s_un, r_un)) => {
                let is_sender = matches!(end, ChannelEndWithCapacity::Sender);
                let (this_un, this_claimed, peer) = if is_sender { (s_un, s0.is_some(), r0) } else { (r_un, r0.is_some(), s0) };
                if this_un {
                    // an end can be claimed once; the peer is told exactly once
                    let (po, pc) = peer.unwrap();
                    if is_sender {
                        assert!(rep.code == 0 && rep.aux == pc, "the claimer learns the receiver's capacity");
                    } else {
                        assert!(rep.code == 1);
                    }
                    let told = count_kind_to(po.0, K::ChannelEndClaimed, |e| e.cookie == 30 && e.code == if is_sender { 0 } else { 1 });
                    assert!(told == if send_fails(po.0) { 0 } else { 1 });
                    let (s1, r1, _, _) = chan_ends(&w).unwrap();
                    if is_sender {
                        assert!(s1 == Some((conn(who), pc)) && r1 == r0);
                    } else {
                        assert!(r1 == Some((conn(who), cap)) && s1 == Some((po, cap)));
                    }
                } else if this_claimed {
                    assert!(rep.code == 3);
                    assert!(chan_ends(&w).map(|(a, b, _, _)| (a, b)) == Some((s0, r0)));
                } else {
                    assert!(rep.code == 2);
                }
            }
        }
        assert!(inv_chan(&w.b));
        std::mem::forget(w);
    }

    fn close_channel_end_lemma(sd: chv::EndSpec, rc: chv::EndSpec, who: u8, known: bool, as_sender: bool) {
        let mut w = channel_world_shape(sd, rc);
        let cookie = if known { chan_cookie(30) } else { chan_cookie(31) };
        set_send_fails(who, false);
        let serial: u32 = kani::any();
        let end = if as_sender { ChannelEnd::Sender } else { ChannelEnd::Receiver };
        let pre = if cookie == chan_cookie(30) { chan_ends(&w) } else { None };
        let r = w.b.close_channel_end(&mut w.st, &conn(who), CloseChannelEnd { serial, cookie, end });
        assert!(r.is_ok());
        let rep = find_where(|e| e.kind == K::CloseChannelEndReply && e.to == who && e.serial == serial).unwrap();
        match pre {
            None => assert!(rep.code == 1 && log_len() == 1),
            Some((s0, r0, s_un, r_un)) => {
                let (this, this_un, other) = match end {
                    ChannelEnd::Sender => (s0, s_un, r0),
                    ChannelEnd::Receiver => (r0, r_un, s0),
                };
                let allowed = this_un || this.map(|(o, _)| o == conn(who)).unwrap_or(false);
                if allowed {
                    assert!(rep.code == 0);
                    match other {
                        Some((po, _)) => {
                            let told = count_kind_to(po.0, K::ChannelEndClosed, |e| e.cookie == 30 && e.code == if end == ChannelEnd::Sender { 0 } else { 1 });
                            // when claimer and peer are the same connection it also got the reply
                            assert!(told == if send_fails(po.0) { 0 } else { 1 }, "the peer is told exactly once");
                            let (s1, r1, _, _) = chan_ends(&w).unwrap();
                            match end {
                                ChannelEnd::Sender => assert!(s1.is_none() && r1 == r0),
                                ChannelEnd::Receiver => assert!(r1.is_none() && s1 == s0),
                            }
                        }
                        None => assert!(chan_ends(&w).is_none(), "no claimed end left: the channel is removed"),
                    }
                } else if this.is_some() {
                    assert!(rep.code == 2, "only the owner can close a claimed end");
                    assert!(chan_ends(&w).map(|(a, b, _, _)| (a, b)) == Some((s0, r0)) && log_len() == 1);
                } else {
                    assert!(rep.code == 1 && log_len() == 1);
                }
            }
        }
        assert!(inv_chan(&w.b));
        std::mem::forget(w);
    }

    #[cfg(not(verif_quick))]
    #[kani::proof]
    #[kani::unwind(18)]
    #[kani::stub(aldrin_core::ChannelCookie::new_v4, fresh_chan_cookie)]
    fn q_c05_c11_create_channel() {
        // one other channel already exists
        let mut w = channel_world_shape(chv::EndSpec::C(0), chv::EndSpec::C(1));
        let who = 1;
        let serial: u32 = kani::any();
        let cap: u32 = kani::any();
        let end = if kani::any() { ChannelEndWithCapacity::Sender } else { ChannelEndWithCapacity::Receiver(cap) };
        let r = w.b.create_channel(&conn(who), CreateChannel { serial, end });
        if send_fails(who) {
            assert!(r.is_err());
        } else {
            assert!(r.is_ok() && log_len() == 1 && log(0).to == who);
            let rep = log(0);
            assert!(rep.kind == K::CreateChannelReply && rep.serial == serial && rep.cookie == fresh());
        }
        let ch = w.b.channels.get(&chan_cookie(fresh())).unwrap();
        match end {
            ChannelEndWithCapacity::Sender => assert!(chv::sender_claimed(ch) == Some((conn(who), 0)) && chv::receiver_unclaimed(ch)),
            ChannelEndWithCapacity::Receiver(c) => assert!(chv::receiver_claimed(ch) == Some((conn(who), c)) && chv::sender_unclaimed(ch)),
        }
        assert!(inv_chan(&w.b));
        std::mem::forget(w);
    }

    use chv::EndSpec::{C, U, X};

    macro_rules! inst {
        ($($name:ident = $lemma:ident($($arg:expr),*) $(=> $cov:expr)?;)*) => {$(
            #[kani::proof]
            #[kani::unwind(18)]
            fn $name() {
                $lemma($($arg),*);
                // vacuity witnesses: the end is reached, and (where given) the interesting outcome
                kani::cover!(true);
                $(kani::cover!($cov);)?
            }
        )*};
    }
    macro_rules! inst_t {
        ($($name:ident = $lemma:ident($($arg:expr),*) $(=> $cov:expr)?;)*) => {$(
            #[cfg(any(verif_unit = "all", verif_unit = "chan_handlers_t"))]
            #[kani::proof]
            #[kani::unwind(18)]
            fn $name() {
                $lemma($($arg),*);
                kani::cover!(true);
                $(kani::cover!($cov);)?
            }
        )*};
    }

    // q_ = quick and thorough tier, t_ = thorough tier only (unit chan_handlers_t). Shapes: sender
    // end, receiver end (U unclaimed, C(owner) claimed, X closed), who sends the request, whether the
    // cookie names the channel (, which end is meant).
    inst! {
        q_c05_c11_send_item_cc01_by_receiver = send_item_lemma(C(0), C(1), 1, true);
        q_c05_c11_send_item_cx_by_sender = send_item_lemma(C(0), X, 0, true);
        q_c05_c11_add_capacity_cc01_by_receiver = add_channel_capacity_lemma(C(0), C(1), 1, true)
            => count_kind_to(0, K::AddChannelCapacity, |e| e.cookie == 30) == 1;
        q_c05_c11_add_capacity_cc01_by_sender = add_channel_capacity_lemma(C(0), C(1), 0, true);
        q_c05_c11_claim_receiver_cu_by_other = claim_channel_end_lemma(C(0), U, 1, true, false)
            => count_kind_to(0, K::ChannelEndClaimed, |e| e.cookie == 30) == 1;
        q_c05_c11_close_sender_cc01_by_owner = close_channel_end_lemma(C(0), C(1), 0, true, true)
            => count_kind_to(1, K::ChannelEndClosed, |e| e.cookie == 30) == 1;
    }
    #[cfg(not(verif_quick))]
    inst! {
        q_c05_c11_send_item_cc01_by_sender = send_item_lemma(C(0), C(1), 0, true)
            => count_kind_to(1, K::ItemReceived, |_| true) == 1 && count_kind_to(0, K::AddChannelCapacity, |e| e.cookie == 30) == 1;
        q_c05_c11_send_item_cu_by_sender = send_item_lemma(C(0), U, 0, true);
        q_c05_c11_send_item_unknown_cookie = send_item_lemma(C(0), C(1), 0, false);
        q_c05_c11_add_capacity_uc_by_receiver = add_channel_capacity_lemma(U, C(1), 1, true);
        q_c05_c11_add_capacity_xc_by_receiver = add_channel_capacity_lemma(X, C(1), 1, true);
        q_c05_c11_add_capacity_unknown_cookie = add_channel_capacity_lemma(C(0), C(1), 1, false);
        q_c05_c11_claim_sender_uc_by_other = claim_channel_end_lemma(U, C(1), 0, true, true);
        q_c05_c11_claim_sender_cc01_again = claim_channel_end_lemma(C(0), C(1), 1, true, true);
        q_c05_c11_claim_receiver_cx_closed = claim_channel_end_lemma(C(0), X, 1, true, false);
        q_c05_c11_claim_unknown_cookie = claim_channel_end_lemma(C(0), U, 1, false, false);
        q_c05_c11_close_receiver_cc01_by_owner = close_channel_end_lemma(C(0), C(1), 1, true, false);
        q_c05_c11_close_sender_cc01_by_other = close_channel_end_lemma(C(0), C(1), 1, true, true);
        q_c05_c11_close_receiver_cu_unclaimed = close_channel_end_lemma(C(0), U, 1, true, false);
        q_c05_c11_close_sender_cx_last_end = close_channel_end_lemma(C(0), X, 0, true, true);
        q_c05_c11_close_unknown_cookie = close_channel_end_lemma(C(0), C(1), 0, false, true);
    }
    inst_t! {
        t_c05_c11_send_item_cc00_by_owner = send_item_lemma(C(0), C(0), 0, true);
        t_c05_c11_send_item_cc00_by_other = send_item_lemma(C(0), C(0), 1, true);
        t_c05_c11_send_item_uc_by_receiver = send_item_lemma(U, C(1), 1, true);
        t_c05_c11_send_item_xc_by_receiver = send_item_lemma(X, C(1), 1, true);
        t_c05_c11_send_item_cu_by_other = send_item_lemma(C(0), U, 1, true);
        t_c05_c11_add_capacity_cc00_by_owner = add_channel_capacity_lemma(C(0), C(0), 0, true);
        t_c05_c11_add_capacity_cc00_by_other = add_channel_capacity_lemma(C(0), C(0), 1, true);
        t_c05_c11_add_capacity_cu_by_sender = add_channel_capacity_lemma(C(0), U, 0, true);
        t_c05_c11_add_capacity_cx_by_sender = add_channel_capacity_lemma(C(0), X, 0, true);
        t_c05_c11_add_capacity_uc_by_other = add_channel_capacity_lemma(U, C(1), 0, true);
        t_c05_c11_claim_receiver_cu_by_same = claim_channel_end_lemma(C(0), U, 0, true, false);
        t_c05_c11_claim_sender_uc_by_same = claim_channel_end_lemma(U, C(1), 1, true, true);
        t_c05_c11_claim_receiver_cc01_again = claim_channel_end_lemma(C(0), C(1), 0, true, false);
        t_c05_c11_claim_sender_xc_closed = claim_channel_end_lemma(X, C(1), 0, true, true);
        t_c05_c11_claim_sender_cu_again = claim_channel_end_lemma(C(0), U, 1, true, true);
        t_c05_c11_close_sender_uc_unclaimed = close_channel_end_lemma(U, C(1), 0, true, true);
        t_c05_c11_close_receiver_xc_last_end = close_channel_end_lemma(X, C(1), 1, true, false);
        t_c05_c11_close_receiver_cx_closed = close_channel_end_lemma(C(0), X, 1, true, false);
        t_c05_c11_close_sender_cc00_by_owner = close_channel_end_lemma(C(0), C(0), 0, true, true);
        t_c05_c11_close_receiver_cc00_by_other = close_channel_end_lemma(C(0), C(0), 1, true, false);
        t_c05_c11_close_sender_cu_by_owner = close_channel_end_lemma(C(0), U, 0, true, true);
    }

    #[cfg(verif_replay)]
    include!("/verif/.cache/replay/broker__verif__chan_handlers.rs");
}

// =================================================================================================
// C12: per-handler version gates; C11: wrong-direction messages
// =================================================================================================

/// One connection (tag 0, peer alive) with an arbitrary negotiated version, empty bus.
pub(crate) fn gate_world() -> World {
    let mut w = new_world();
    add_conn_ok(&mut w, 0);
    set_fresh(0xf0);
    w
}

pub(crate) fn minor_of(w: &World, tag: u8) -> u32 {
    version_of(w, tag).minor()
}

/// nothing was registered anywhere (the gate lemmas run on an otherwise empty bus)
pub(crate) fn bus_is_empty(w: &World) -> bool {
    w.b.objs.is_empty()
        && w.b.obj_uuids.is_empty()
        && w.b.svcs.is_empty()
        && w.b.svc_uuids.is_empty()
        && w.b.channels.is_empty()
        && w.b.bus_listeners.is_empty()
        && smv::elems(&w.b.function_calls).is_empty()
        && csv::is_blank(w.b.conns.get(&conn(0)).unwrap())
        && !w.st.has_work_left()
}

fn small_value() -> SerializedValue {
    SerializedValue::serialize(7u8).unwrap()
}

#[cfg(any(verif_unit = "all", verif_unit = "gates", verif_unit = "gates_t"))]
mod gates {
    use super::*;

    /// A gated handler closes the connection (`Err`) iff its negotiated version is below the gate,
    /// and then nothing was sent and nothing changed; at or above the gate the message is handled
    /// (here: answered "invalid ..."/ignored, since the bus is empty) and the connection stays.
    macro_rules! gate {
        ($name:ident, $gate:expr, |$w:ident| $call:expr) => {
            #[kani::proof]
            #[kani::unwind(18)]
            fn $name() {
                let mut $w = gate_world();
                let minor = minor_of(&$w, 0);
                let r: Result<(), ()> = $call;
                if minor < $gate {
                    assert!(r.is_err(), "a message newer than the negotiated version closes the connection");
                    assert!(log_len() == 0, "and is not answered");
                } else {
                    assert!(r.is_ok(), "at or above the gate the message is accepted");
                }
                assert!(bus_is_empty(&$w), "no state is created either way on an empty bus");
                kani::cover!(minor < $gate);
                kani::cover!(minor >= $gate);
                std::mem::forget($w);
            }
        };
    }

    gate!(q_c12_c11_gate_call_function2, 19, |w| w.b.call_function2(&mut w.st, &conn(0), CallFunction2 {
        serial: kani::any(), service_cookie: svc_cookie(any_below(3)), function: kani::any(), version: None, value: small_value() }));
    gate!(q_c12_c11_gate_abort_function_call, 16, |w| w.b.abort_function_call(&mut w.st, &conn(0), AbortFunctionCall { serial: kani::any() }));
    gate!(q_c12_c11_gate_register_introspection, 17, |w| w.b.register_introspection(&conn(0), RegisterIntrospection { value: small_value() }));
    gate!(q_c12_c11_gate_query_introspection, 17, |w| w.b.query_introspection(&mut w.st, &conn(0), QueryIntrospection {
        serial: kani::any(), type_id: unsafe { std::mem::transmute::<[u8; 16], aldrin_core::TypeId>([3; 16]) } }));
    gate!(q_c12_c11_gate_create_service2, 17, |w| w.b.create_service2(&mut w.st, &conn(0), CreateService2 {
        serial: kani::any(), object_cookie: obj_cookie(any_below(3)), uuid: svc_uuid(0), value: small_value() }));
    gate!(q_c12_c11_gate_query_service_info, 17, |w| w.b.query_service_info(&conn(0), QueryServiceInfo { serial: kani::any(), cookie: svc_cookie(any_below(3)) }));
    gate!(q_c12_c11_gate_subscribe_service, 18, |w| w.b.subscribe_service(&conn(0), SubscribeService { serial: kani::any(), service_cookie: svc_cookie(any_below(3)) }));
    gate!(q_c12_c11_gate_unsubscribe_service, 18, |w| w.b.unsubscribe_service(&conn(0), UnsubscribeService { service_cookie: svc_cookie(any_below(3)) }));
    gate!(q_c12_c11_gate_subscribe_all_events, 18, |w| {
        let serial: u32 = kani::any();
        w.b.subscribe_all_events(&conn(0), SubscribeAllEvents { serial: Some(serial), service_cookie: svc_cookie(any_below(3)) })
    });
    gate!(q_c12_c11_gate_unsubscribe_all_events, 18, |w| w.b.unsubscribe_all_events(&conn(0), UnsubscribeAllEvents {
        serial: if kani::any() { Some(kani::any()) } else { None }, service_cookie: svc_cookie(any_below(3)) }));

    /// Without the introspection feature a `QueryIntrospectionReply` always closes the sender.
    #[kani::proof]
    #[kani::unwind(18)]
    fn q_c12_c11_query_introspection_reply_rejected() {
        let mut w = gate_world();
        let r = w.b.query_introspection_reply(&mut w.st, &conn(0), QueryIntrospectionReply {
            serial: kani::any(), result: QueryIntrospectionResult::Unavailable });
        assert!(r.is_err() && log_len() == 0 && bus_is_empty(&w));
        std::mem::forget(w);
    }

    /// A message from a connection the broker does not (or no longer) know is ignored by every
    /// gated handler.
    #[kani::proof]
    #[kani::unwind(18)]
    fn q_c11_gated_handlers_ignore_unknown_sender() {
        let mut w = gate_world();
        assert!(w.b.call_function2(&mut w.st, &conn(1), CallFunction2 { serial: 1, service_cookie: svc_cookie(0), function: 0, version: None, value: small_value() }).is_ok());
        assert!(w.b.abort_function_call(&mut w.st, &conn(1), AbortFunctionCall { serial: 1 }).is_ok());
        assert!(w.b.query_service_info(&conn(1), QueryServiceInfo { serial: 1, cookie: svc_cookie(0) }).is_ok());
        assert!(w.b.subscribe_service(&conn(1), SubscribeService { serial: 1, service_cookie: svc_cookie(0) }).is_ok());
        assert!(w.b.unsubscribe_all_events(&conn(1), UnsubscribeAllEvents { serial: None, service_cookie: svc_cookie(0) }).is_ok());
        assert!(log_len() == 0 && bus_is_empty(&w));
        std::mem::forget(w);
    }

    #[cfg(verif_replay)]
    include!("/verif/.cache/replay/broker__verif__gates.rs");
}

// =================================================================================================
// C02: calls - routing, reply acceptance, abort
// =================================================================================================

#[derive(Clone, Copy)]
pub(crate) struct CallSpec {
    pub present: bool,
    pub serial: u32,
    pub caller: u8,
    pub caller_serial: u32,
    pub aborted: bool,
}

pub(crate) struct CallWorld {
    pub w: World,
    pub owner: u8,
    pub a: CallSpec,
    pub b: CallSpec,
}

fn any_call_spec(present: bool, caller: u8, aborted: bool) -> CallSpec {
    CallSpec {
        present,
        serial: kani::any(),
        caller,
        caller_serial: kani::any(),
        aborted,
    }
}

fn install_call(w: &mut World, c: &CallSpec, owner: u8) {
    if !c.present {
        return;
    }
    smv::elems_mut(&mut w.b.function_calls).insert(
        c.serial,
        PendingFunctionCall {
            caller_serial: c.caller_serial,
            caller_conn_id: conn(c.caller),
            callee_obj: obj_uuid(0),
            callee_svc: svc_uuid(0),
            aborted: c.aborted,
        },
    );
    svv::function_calls_mut(w.b.svcs.get_mut(&(obj_uuid(0), svc_uuid(0))).unwrap()).insert(c.serial);
    if !c.aborted {
        csv::calls_mut(w.b.conns.get_mut(&conn(c.caller)).unwrap()).insert(c.caller_serial, (c.serial, conn(owner)));
    }
}

/// Connections 0 and 1 (fits CAP = 2; caller, owner and "somebody else" alias in every possible
/// way over the two); object (uuid 0, cookie 10) owned by `owner`, service (uuid 0, cookie 20);
/// up to two pending calls A, B with arbitrary broker serials, callers, caller serials and aborted
/// flags, consistent with `Inv_calls`: distinct broker serials; a non-aborted call is referenced
/// from its caller's `calls` under its caller serial (so two non-aborted calls of one caller have
/// different caller serials); an aborted call has no back-reference - in particular an aborted
/// call may share its caller serial with a later, active call of the same caller (serial reuse).
///
/// The *shape* of the state - who owns the service, who the callers are, which calls exist and
/// which are aborted - is a concrete parameter and the lemmas are instantiated over the shapes
/// (owner = 0 without loss of generality: the code never looks at the tag value). Serials and
/// caller serials, versions and peer liveness stay symbolic. With a symbolic shape every map
/// update goes through an if-then-else over whole `ConnectionState`s and the SAT back end runs
/// out of memory (> 11 GB); with a concrete shape a lemma takes well under a minute.
pub(crate) fn call_world(owner: u8, caller_a: u8, caller_b: u8, shape: (bool, bool, bool, bool)) -> CallWorld {
    let mut w = new_world();
    add_conn(&mut w, 0);
    add_conn(&mut w, 1);
    add_object(&mut w, 0, 10, owner);
    add_service(&mut w, 0, 10, 0, 20, ServiceInfo::new(1));
    let (a_present, a_aborted, b_present, b_aborted) = shape;
    let a = any_call_spec(a_present, caller_a, a_aborted);
    let b = any_call_spec(b_present, caller_b, b_aborted);
    kani::assume(!(a.present && b.present) || a.serial != b.serial);
    kani::assume(!(a.present && b.present && !a.aborted && !b.aborted && a.caller == b.caller) || a.caller_serial != b.caller_serial);
    install_call(&mut w, &a, owner);
    install_call(&mut w, &b, owner);
    smv::set_next(&mut w.b.function_calls, kani::any());
    set_fresh(0xf0);
    CallWorld { w, owner, a, b }
}

pub(crate) fn call_pending(w: &World, serial: u32) -> Option<(u32, u8, bool)> {
    smv::elems(&w.b.function_calls).get(&serial).map(|c| (c.caller_serial, c.caller_conn_id.0, c.aborted))
}

pub(crate) fn backref(w: &World, caller: u8, caller_serial: u32) -> Option<(u32, u8)> {
    w.b.conns.get(&conn(caller)).and_then(|c| csv::calls(c).get(&caller_serial).map(|(s, id)| (*s, id.0)))
}

fn spec_state_unchanged(cw: &CallWorld, c: &CallSpec) -> bool {
    if !c.present {
        return true;
    }
    call_pending(&cw.w, c.serial) == Some((c.caller_serial, c.caller, c.aborted))
        && (c.aborted || backref(&cw.w, c.caller, c.caller_serial) == Some((c.serial, cw.owner)))
}

#[cfg(any(verif_unit = "all", verif_unit = "calls", verif_unit = "calls_t"))]
mod calls {
    use super::*;

    /// Reply acceptance: only the owner's reply to a pending, non-aborted call is delivered - once,
    /// to the caller, under the caller's serial, result unchanged; everything else is dropped
    /// without touching other calls (in particular a stale reply to an aborted call whose caller
    /// serial has been reused).
    fn call_function_reply_lemma(ca: u8, cb: u8, who: u8, shape: (bool, bool, bool, bool)) {
        let owner = 0;
        let mut cw = call_world(owner, ca, cb, shape);
        let serial: u32 = kani::any();
        let hit_a = cw.a.present && cw.a.serial == serial;
        let hit_b = cw.b.present && cw.b.serial == serial;
        let target = if hit_a { Some(cw.a) } else if hit_b { Some(cw.b) } else { None };
        let other = if hit_a { cw.b } else { cw.a };
        let res_tag: u8 = kani::any();
        let result = match res_tag % 3 {
            0 => CallFunctionResult::Ok(small_value()),
            1 => CallFunctionResult::InvalidFunction,
            _ => CallFunctionResult::InvalidArgs,
        };
        cw.w.b.call_function_reply(&mut cw.w.st, &conn(who), CallFunctionReply { serial, result });
        match target {
            None => {
                assert!(log_len() == 0, "a reply for an unknown serial is dropped");
                assert!(spec_state_unchanged(&cw, &cw.a) && spec_state_unchanged(&cw, &cw.b));
            }
            Some(t) if who != cw.owner => {
                assert!(log_len() == 0, "a reply from anyone but the service owner is dropped");
                assert!(spec_state_unchanged(&cw, &cw.a) && spec_state_unchanged(&cw, &cw.b));
            }
            Some(t) => {
                assert!(call_pending(&cw.w, serial).is_none(), "the pending entry is consumed: a second reply finds nothing");
                assert!(!svv::function_calls(cw.w.b.svcs.get(&(obj_uuid(0), svc_uuid(0))).unwrap()).contains(&serial));
                if t.aborted {
                    assert!(log_len() == 0, "a reply after an abort is never delivered");
                } else {
                    let expect = if send_fails(t.caller) { 0 } else { 1 };
                    assert!(log_len() == expect);
                    if expect == 1 {
                        let rep = log(0);
                        assert!(rep.to == t.caller && rep.kind == K::CallFunctionReply, "the reply goes to the caller");
                        assert!(rep.serial == t.caller_serial, "under the caller's own serial");
                        let same = match res_tag % 3 {
                            0 => rep.code == 0 && rep.vlen == 2 && rep.v0 == 3 && rep.v1 == 7,
                            1 => rep.code == 4,
                            _ => rep.code == 5,
                        };
                        assert!(same, "with the owner's result and payload unchanged");
                        assert!(rep.vminor as u32 == minor_of(&cw.w, who), "payload tagged with the replier's version");
                    }
                    assert!(backref(&cw.w, t.caller, t.caller_serial).is_none(), "the caller's tracking entry is gone");
                }
                // the other call is untouched, whatever serials it shares with this one
                assert!(spec_state_unchanged(&cw, &other), "other pending calls are not affected");
            }
        }
        // serial reuse: stale reply to an aborted call whose caller serial is in use again
        kani::cover!(!(shape == (true, true, true, false) && ca == cb && who == owner) || (hit_a && cw.b.caller_serial == cw.a.caller_serial));
        kani::cover!(!(shape == (true, false, false, false) && who == owner) || (hit_a && log_len() == 1));
        std::mem::forget(cw);
    }

    /// Abort by the caller: exactly one `Aborted` reply under the caller's serial, the entry is
    /// marked aborted and the back-reference removed; the owner is told iff it speaks >= 1.16.
    fn abort_call_lemma(ca: u8, cb: u8, who: u8, shape: (bool, bool, bool, bool)) {
        let owner = 0;
        let mut cw = call_world(owner, ca, cb, shape);
        let caller_serial: u32 = kani::any();
        let minor = minor_of(&cw.w, who);
        let tracked = backref(&cw.w, who, caller_serial);
        let r = cw.w.b.abort_function_call(&mut cw.w.st, &conn(who), AbortFunctionCall { serial: caller_serial });
        if minor < 16 {
            assert!(r.is_err() && log_len() == 0);
            assert!(spec_state_unchanged(&cw, &cw.a) && spec_state_unchanged(&cw, &cw.b));
        } else {
            assert!(r.is_ok() && log_len() == 0, "the abort itself is deferred");
            let q = stv::abort_function_calls(&cw.w.st);
            match tracked {
                None => assert!(q.is_empty(), "aborting an unknown serial does nothing"),
                Some((s, callee)) => {
                    assert!(q.len() == 1 && q[0].0 == s && q[0].1 == conn(callee));
                    // the deferred step
                    let owner_minor = minor_of(&cw.w, cw.owner);
                    cw.w.b.abort_call(&mut cw.w.st, s, conn(callee));
                    assert!(call_pending(&cw.w, s) == Some((caller_serial, who, true)), "entry stays, marked aborted");
                    assert!(backref(&cw.w, who, caller_serial).is_none());
                    let to_caller = count_kind_to(who, K::CallFunctionReply, |e| e.serial == caller_serial && e.code == 2);
                    assert!(to_caller == if send_fails(who) { 0 } else { 1 }, "exactly one Aborted reply to the caller");
                    let to_owner = count_kind_to(callee, K::AbortFunctionCall, |e| e.serial == s);
                    assert!(to_owner == if owner_minor >= 16 && !send_fails(callee) { 1 } else { 0 }, "owner told iff it speaks >= 1.16");
                    // aborting again changes nothing and sends nothing more
                    let n = log_len();
                    cw.w.b.abort_call(&mut cw.w.st, s, conn(callee));
                    assert!(log_len() == n);
                }
            }
        }
        kani::cover!(!(who == ca && shape.0 && !shape.1) || (minor >= 16 && tracked.is_some()));
        std::mem::forget(cw);
    }

    macro_rules! shapes {
        ($($name:ident = $f:ident($a:expr, $b:expr, $w:expr, $shape:expr);)*) => {$(
            #[kani::proof]
            #[kani::unwind(18)]
            fn $name() {
                $f($a, $b, $w, $shape);
            }
        )*};
    }

    // caller of call A, caller of call B, sender of the message, (A present, A aborted, B present, B aborted)
    const ONE: (bool, bool, bool, bool) = (true, false, false, false);
    const ONE_ABORTED: (bool, bool, bool, bool) = (true, true, false, false);
    const TWO: (bool, bool, bool, bool) = (true, false, true, false);
    const REUSE: (bool, bool, bool, bool) = (true, true, true, false);
    const NONE_PENDING: (bool, bool, bool, bool) = (false, false, false, false);
    shapes! {
        q_c02_c11_reply_none_pending = call_function_reply_lemma(1, 1, 0, NONE_PENDING);
        q_c02_c11_reply_one_by_owner = call_function_reply_lemma(1, 1, 0, ONE);
        q_c02_c11_reply_one_aborted = call_function_reply_lemma(1, 1, 0, ONE_ABORTED);
        q_c02_c11_reply_serial_reuse = call_function_reply_lemma(1, 1, 0, REUSE);
        q_c02_c11_abort_one = abort_call_lemma(1, 1, 1, ONE);
        q_c02_c11_abort_by_other = abort_call_lemma(1, 1, 0, ONE);
    }
    #[cfg(not(verif_quick))]
    shapes! {
        q_c02_c11_reply_one_by_other = call_function_reply_lemma(1, 1, 1, ONE);
        q_c02_c11_reply_one_self_call = call_function_reply_lemma(0, 0, 0, ONE);
        q_c02_c11_reply_two_same_caller = call_function_reply_lemma(1, 1, 0, TWO);
        q_c02_c11_reply_two_callers = call_function_reply_lemma(0, 1, 0, TWO);
        q_c02_c11_reply_serial_reuse_self = call_function_reply_lemma(0, 0, 0, REUSE);
        q_c02_c11_abort_one_self = abort_call_lemma(0, 0, 0, ONE);
        q_c02_c11_abort_two = abort_call_lemma(1, 1, 1, TWO);
        q_c02_c11_abort_after_abort = abort_call_lemma(1, 1, 1, REUSE);
    }

    #[cfg(verif_replay)]
    include!("/verif/.cache/replay/broker__verif__calls.rs");
}

// =================================================================================================
// C04: event subscriptions and fan-out
// =================================================================================================

pub(crate) struct EventWorld {
    pub w: World,
    pub owner: u8,
    /// sub[c][e]: connection c subscribed to event e (e in {0,1}); all[c]: subscribed to all events
    pub sub: [[bool; 2]; 2],
    pub all: [bool; 2],
}

/// Concrete shape, symbolic scalars: connections 0 and 1 (arbitrary versions, each peer possibly
/// gone); object (0, 10) owned by `owner`, service (0, 20) that supports subscribe-all; the given
/// event / all-events subscriptions, mirrored between the service and the subscribers' connection
/// states (as `subscribe_event` / `subscribe_all_events` leave them).
pub(crate) fn event_world(owner: u8, sub: [[bool; 2]; 2], all: [bool; 2]) -> EventWorld {
    let mut w = new_world();
    add_conn(&mut w, 0);
    add_conn(&mut w, 1);
    add_object(&mut w, 0, 10, owner);
    add_service(&mut w, 0, 10, 0, 20, ServiceInfo::new(1).set_subscribe_all(true));
    let mut c = 0u8;
    while c < 2 {
        let mut e = 0u32;
        while e < 2 {
            if sub[c as usize][e as usize] {
                w.b.svcs.get_mut(&(obj_uuid(0), svc_uuid(0))).unwrap().subscribe_event(e, conn(c));
                w.b.conns.get_mut(&conn(c)).unwrap().subscribe_event(svc_cookie(20), e);
            }
            e += 1;
        }
        if all[c as usize] {
            w.b.svcs.get_mut(&(obj_uuid(0), svc_uuid(0))).unwrap().subscribe_all_events(conn(c));
            w.b.conns.get_mut(&conn(c)).unwrap().subscribe_all_events(svc_cookie(20));
        }
        c += 1;
    }
    set_fresh(0xf0);
    EventWorld { w, owner, sub, all }
}

fn n_subs(ew: &EventWorld, e: usize) -> usize {
    (ew.sub[0][e] as usize) + (ew.sub[1][e] as usize)
}

fn svc_has_sub(w: &World, e: u32, c: u8) -> bool {
    svv::events(w.b.svcs.get(&(obj_uuid(0), svc_uuid(0))).unwrap()).get(&e).map(|s| s.contains(&conn(c))).unwrap_or(false)
}

fn conn_has_sub(w: &World, e: u32, c: u8) -> bool {
    csv::events(w.b.conns.get(&conn(c)).unwrap()).get(&svc_cookie(20)).map(|s| s.contains(&e)).unwrap_or(false)
}

#[cfg(any(verif_unit = "all", verif_unit = "events", verif_unit = "events_t"))]
mod events {
    use super::*;

    const T: bool = true;
    const F: bool = false;

    /// Fan-out: an event emitted by the owner reaches exactly the connections subscribed to that
    /// event id or to all events, once each, payload unchanged; a non-owner's emit is dropped.
    fn emit_event_lemma(owner: u8, sub: [[bool; 2]; 2], all: [bool; 2], who: u8, e: u32, known: bool) {
        let mut ew = event_world(owner, sub, all);
        let cookie = if known { svc_cookie(20) } else { svc_cookie(21) };
        ew.w.b.emit_event(&mut ew.w.st, &conn(who), EmitEvent { service_cookie: cookie, event: e, value: small_value() });
        if !known || who != ew.owner {
            assert!(log_len() == 0, "events of unknown services or from non-owners are dropped");
        } else {
            let mut c = 0u8;
            while c < 2 {
                let subscribed = ew.sub[c as usize][e as usize] || ew.all[c as usize];
                let got = count_kind_to(c, K::EmitEvent, |x| x.cookie == 20 && x.aux == e && x.vlen == 2 && x.v0 == 3 && x.v1 == 7);
                let expect = if subscribed && !send_fails(c) { 1 } else { 0 };
                assert!(got == expect, "delivered exactly once to each subscribed connection and to nobody else");
                assert!(log_count_to(c) == got, "nothing else is sent");
                c += 1;
            }
        }
        std::mem::forget(ew);
    }

    /// Subscribe: one reply; the owner is asked to start producing iff this is the 0 -> 1 transition.
    fn subscribe_event_lemma(owner: u8, sub: [[bool; 2]; 2], all: [bool; 2], who: u8, e: u32, known: bool) {
        let mut ew = event_world(owner, sub, all);
        set_send_fails(who, false);
        let serial: u32 = kani::any();
        let cookie = if known { svc_cookie(20) } else { svc_cookie(21) };
        let n0 = n_subs(&ew, e as usize);
        let r = ew.w.b.subscribe_event(&conn(who), SubscribeEvent { serial: Some(serial), service_cookie: cookie, event: e });
        assert!(r.is_ok());
        let replies = count_kind_to(who, K::SubscribeEventReply, |x| x.serial == serial);
        assert!(replies == 1, "exactly one reply");
        if !known {
            assert!(log_len() == 1 && log(0).kind == K::SubscribeEventReply && log(0).code == 1);
        } else {
            assert!(find_where(|x| x.kind == K::SubscribeEventReply).unwrap().code == 0);
            assert!(svc_has_sub(&ew.w, e, who) && conn_has_sub(&ew.w, e, who), "recorded on both sides");
            let asked = count_kind_to(ew.owner, K::SubscribeEvent, |x| !x.has_serial && x.aux == e && x.cookie == 20);
            let first = n0 == 0;
            assert!(asked == if first && !send_fails(ew.owner) { 1 } else { 0 }, "owner told to start exactly on the 0 -> 1 transition");
            // the other connection's subscriptions are untouched
            let o = 1 - who;
            assert!(svc_has_sub(&ew.w, e, o) == ew.sub[o as usize][e as usize]);
            assert!(svc_has_sub(&ew.w, 1 - e, who) == ew.sub[who as usize][(1 - e) as usize]);
        }
        std::mem::forget(ew);
    }

    /// Unsubscribe: the owner is told to stop iff this removes the last subscriber.
    fn unsubscribe_event_lemma(owner: u8, sub: [[bool; 2]; 2], all: [bool; 2], who: u8, e: u32, known: bool) {
        let mut ew = event_world(owner, sub, all);
        let cookie = if known { svc_cookie(20) } else { svc_cookie(21) };
        let n0 = n_subs(&ew, e as usize);
        let was = ew.sub[who as usize][e as usize];
        ew.w.b.unsubscribe_event(&mut ew.w.st, &conn(who), UnsubscribeEvent { service_cookie: cookie, event: e });
        if !known {
            assert!(log_len() == 0);
        } else {
            assert!(!svc_has_sub(&ew.w, e, who) && !conn_has_sub(&ew.w, e, who));
            let told = count_kind_to(ew.owner, K::UnsubscribeEvent, |x| x.aux == e && x.cookie == 20);
            let last = was && n0 == 1;
            assert!(told == if last && !send_fails(ew.owner) { 1 } else { 0 }, "owner told to stop exactly on the 1 -> 0 transition");
            assert!(log_len() == told);
            // other subscriptions stay
            let o = 1 - who;
            assert!(svc_has_sub(&ew.w, e, o) == ew.sub[o as usize][e as usize]);
            assert!(svc_has_sub(&ew.w, 1 - e, who) == ew.sub[who as usize][(1 - e) as usize]);
            assert!(conn_has_sub(&ew.w, 1 - e, who) == ew.sub[who as usize][(1 - e) as usize]);
        }
        std::mem::forget(ew);
    }

    macro_rules! inst {
        ($($name:ident = $lemma:ident($($arg:expr),*) $(=> $cov:expr)?;)*) => {$(
            #[kani::proof]
            #[kani::unwind(18)]
            fn $name() {
                $lemma($($arg),*);
                kani::cover!(true);
                $(kani::cover!($cov);)?
            }
        )*};
    }
    macro_rules! inst_t {
        ($($name:ident = $lemma:ident($($arg:expr),*) $(=> $cov:expr)?;)*) => {$(
            #[cfg(any(verif_unit = "all", verif_unit = "events_t"))]
            #[kani::proof]
            #[kani::unwind(18)]
            fn $name() {
                $lemma($($arg),*);
                kani::cover!(true);
                $(kani::cover!($cov);)?
            }
        )*};
    }

    // arguments: owner, sub[conn][event], all[conn], requester, event id, cookie known
    inst! {
        q_c04_c11_emit_both_subscribed = emit_event_lemma(0, [[T, F], [T, F]], [F, F], 0, 0, true) => log_len() == 2;
        q_c04_c11_emit_subscribed_both_ways_once = emit_event_lemma(0, [[F, F], [T, F]], [F, T], 0, 0, true) => log_len() == 1;
        q_c04_c11_emit_by_non_owner = emit_event_lemma(0, [[T, F], [T, F]], [F, F], 1, 0, true);

        q_c04_c11_subscribe_first = subscribe_event_lemma(0, [[F, F], [F, T]], [F, F], 1, 0, true)
            => count_kind_to(0, K::SubscribeEvent, |x| !x.has_serial) == 1;
        q_c04_c11_subscribe_second = subscribe_event_lemma(0, [[T, F], [F, F]], [F, F], 1, 0, true);

        q_c04_c11_unsubscribe_last = unsubscribe_event_lemma(0, [[F, F], [T, T]], [F, F], 1, 0, true)
            => count_kind_to(0, K::UnsubscribeEvent, |_| true) == 1;
        q_c04_c11_unsubscribe_one_of_two = unsubscribe_event_lemma(0, [[T, F], [T, F]], [F, F], 1, 0, true);
    }
    #[cfg(not(verif_quick))]
    inst! {
        q_c04_c11_emit_all_events_subscriber = emit_event_lemma(0, [[F, F], [F, F]], [F, T], 0, 1, true) => log_len() == 1;
        q_c04_c11_emit_other_event_only = emit_event_lemma(0, [[F, F], [F, T]], [F, F], 0, 0, true);
        q_c04_c11_emit_unknown_cookie = emit_event_lemma(0, [[T, F], [T, F]], [F, F], 0, 0, false);
        q_c04_c11_subscribe_again = subscribe_event_lemma(0, [[F, F], [T, F]], [F, F], 1, 0, true);
        q_c04_c11_subscribe_unknown_cookie = subscribe_event_lemma(0, [[F, F], [F, F]], [F, F], 1, 0, false);
        q_c04_c11_unsubscribe_not_subscribed = unsubscribe_event_lemma(0, [[T, F], [F, T]], [F, F], 1, 0, true);
        q_c04_c11_unsubscribe_unknown_cookie = unsubscribe_event_lemma(0, [[F, F], [T, F]], [F, F], 1, 0, false);
    }
    inst_t! {
        t_c04_c11_emit_mixed = emit_event_lemma(1, [[F, T], [T, F]], [T, F], 1, 0, true) => log_len() == 2;
        t_c04_c11_emit_nobody = emit_event_lemma(1, [[F, F], [F, F]], [F, F], 1, 1, true);
        t_c04_c11_subscribe_first_by_owner = subscribe_event_lemma(0, [[F, F], [F, F]], [F, T], 0, 1, true);
        t_c04_c11_subscribe_other_event = subscribe_event_lemma(1, [[T, F], [T, F]], [F, F], 0, 1, true);
        t_c04_c11_unsubscribe_last_by_owner = unsubscribe_event_lemma(0, [[F, T], [F, F]], [F, F], 0, 1, true);
        t_c04_c11_unsubscribe_all_events_subscriber_stays = unsubscribe_event_lemma(1, [[T, F], [F, F]], [F, T], 0, 0, true);
    }

    #[cfg(verif_replay)]
    include!("/verif/.cache/replay/broker__verif__events.rs");
}

#[cfg(verif_unit = "probe")]
mod probe {
    use super::*;

    #[kani::proof]
    #[kani::unwind(18)]
    fn p1_two_conns() {
        let mut w = new_world();
        add_conn(&mut w, 0);
        add_conn(&mut w, 1);
        assert!(w.b.conns.len() == 2);
        std::mem::forget(w);
    }

    #[kani::proof]
    #[kani::unwind(18)]
    fn p2_object() {
        let mut w = new_world();
        add_conn(&mut w, 0);
        add_conn(&mut w, 1);
        add_object(&mut w, 0, 10, 0);
        assert!(w.b.objs.len() == 1);
        std::mem::forget(w);
    }

    #[kani::proof]
    #[kani::unwind(18)]
    fn p3_service() {
        let mut w = new_world();
        add_conn(&mut w, 0);
        add_conn(&mut w, 1);
        add_object(&mut w, 0, 10, 0);
        add_service(&mut w, 0, 10, 0, 20, ServiceInfo::new(1));
        assert!(w.b.svcs.len() == 1);
        std::mem::forget(w);
    }

    #[kani::proof]
    #[kani::unwind(18)]
    fn p4_call() {
        let cw = call_world(0, 1, 1, (true, false, false, false));
        assert!(call_pending(&cw.w, cw.a.serial).is_some());
        std::mem::forget(cw);
    }

    #[kani::proof]
    #[kani::unwind(18)]
    fn p5_reply() {
        let mut cw = call_world(0, 1, 1, (true, false, false, false));
        let serial = cw.a.serial;
        cw.w.b.call_function_reply(&mut cw.w.st, &conn(0), CallFunctionReply { serial, result: CallFunctionResult::InvalidArgs });
        assert!(call_pending(&cw.w, serial).is_none());
        std::mem::forget(cw);
    }

    #[kani::proof]
    #[kani::unwind(18)]
    fn p6_reply_value() {
        let mut cw = call_world(0, 1, 1, (true, false, false, false));
        let serial = cw.a.serial;
        cw.w.b.call_function_reply(&mut cw.w.st, &conn(0), CallFunctionReply { serial, result: CallFunctionResult::Ok(small_value()) });
        assert!(call_pending(&cw.w, serial).is_none());
        std::mem::forget(cw);
    }
}

// =================================================================================================
// C10: bus events for new entities - per-connection de-duplication
// =================================================================================================
#[cfg(any(verif_unit = "all", verif_unit = "bus_events", verif_unit = "bus_events_t"))]
mod bus_events {
    use super::*;
    use aldrin_core::BusListenerFilter;

    /// Two listeners (cookies 40, 41) in this slot order; owners and configuration concrete per
    /// instantiation, the event's ids symbolic.
    fn add_listener(w: &mut World, cookie: u8, owner: u8, scope: Option<BusListenerScope>, filter: Option<BusListenerFilter>) {
        let mut l = BusListener::new(conn(owner));
        if let Some(f) = filter {
            l.add_filter(f);
        }
        if let Some(s) = scope {
            l.start(s);
        }
        w.b.bus_listeners.insert(listener_cookie(cookie), l);
        csv::bus_listeners_mut(w.b.conns.get_mut(&conn(owner)).unwrap()).insert(listener_cookie(cookie));
    }

    /// event kind concrete per instance (0 object created, 1 object destroyed, 2 service created,
    /// 3 service destroyed), ids symbolic
    fn event_of(kind: u8) -> BusEvent {
        let o = ObjectId::new(obj_uuid(any_below(2)), obj_cookie(kani::any()));
        let s = ServiceId::new(o, svc_uuid(any_below(2)), svc_cookie(kani::any()));
        match kind {
            0 => BusEvent::ObjectCreated(o),
            1 => BusEvent::ObjectDestroyed(o),
            2 => BusEvent::ServiceCreated(s),
            _ => BusEvent::ServiceDestroyed(s),
        }
    }

    /// first listener (visited first) and second listener: (owner, started-with-new?, has a filter
    /// that matches the event?). A non-matching listener is unstarted / started with scope Current /
    /// has no filter or only a filter of the other family - all concrete per instance (`variant`),
    /// the event's ids and the matching listeners' scope (New or All) are symbolic.
    fn dedup_lemma(first: (u8, bool, bool), second: (u8, bool, bool), kind: u8, variant: bool) {
        let mut w = new_world();
        add_conn(&mut w, 0);
        add_conn(&mut w, 1);
        let ev = event_of(kind);
        let is_obj = kind < 2;
        let scope_of = |started: bool| if started { Some(if kani::any() { BusListenerScope::New } else { BusListenerScope::All }) } else if variant { Some(BusListenerScope::Current) } else { None };
        let filter_of = |m: bool| {
            if m {
                Some(if is_obj { BusListenerFilter::any_object() } else { BusListenerFilter::any_object_any_service() })
            } else if variant {
                Some(if is_obj { BusListenerFilter::any_object_any_service() } else { BusListenerFilter::any_object() })
            } else {
                None
            }
        };
        add_listener(&mut w, 40, first.0, scope_of(first.1), filter_of(first.2));
        add_listener(&mut w, 41, second.0, scope_of(second.1), filter_of(second.2));
        w.b.emit_bus_event(&mut w.st, ev);
        let mut c = 0u8;
        while c < 2 {
            let wants = (first.0 == c && first.1 && first.2) || (second.0 == c && second.1 && second.2);
            let got = count_kind_to(c, K::EmitBusEvent, |e| !e.has_serial && e.code == kind);
            assert!(got == if wants && !send_fails(c) { 1 } else { 0 }, "each matching new event exactly once per connection, regardless of how many of its listeners match or in which order they are visited");
            assert!(log_count_to(c) == got);
            c += 1;
        }
        std::mem::forget(w);
    }

    macro_rules! inst {
        ($($name:ident = ($a:expr, $b:expr, $k:expr, $v:expr);)*) => {$(
            #[kani::proof]
            #[kani::unwind(18)]
            fn $name() {
                dedup_lemma($a, $b, $k, $v);
            }
        )*};
    }

    inst! {
        q_c10_c11_bus_event_nonmatching_then_matching_same_conn = ((0, true, false), (0, true, true), 0, false);
    }
    #[cfg(not(verif_quick))]
    inst! {
        t_c10_c11_bus_event_both_matching_same_conn = ((0, true, true), (0, true, true), 2, true);
        t_c10_c11_bus_event_unstarted_then_matching_same_conn = ((0, false, true), (0, true, true), 1, false);
        t_c10_c11_bus_event_current_scope_then_matching_same_conn = ((0, false, true), (0, true, true), 3, true);
        t_c10_c11_bus_event_other_family_filter_then_matching = ((0, true, false), (0, true, true), 2, true);
        t_c10_c11_bus_event_matching_then_nonmatching_same_conn = ((0, true, true), (0, true, false), 0, true);
        t_c10_c11_bus_event_two_conns_both_matching = ((0, true, true), (1, true, true), 0, false);
        t_c10_c11_bus_event_two_conns_one_matching = ((1, false, true), (0, true, true), 3, false);
        t_c10_c11_bus_event_none_matching = ((0, true, false), (1, false, true), 1, true);
    }

    #[cfg(verif_replay)]
    include!("/verif/.cache/replay/broker__verif__bus_events.rs");
}

// =================================================================================================
// C10: starting a listener reports exactly the matching current objects and services
// =================================================================================================
#[cfg(any(verif_unit = "all", verif_unit = "bus_start", verif_unit = "bus_start_t"))]
mod bus_start {
    use super::*;
    use aldrin_core::BusListenerFilter;

    /// the six filter shapes over the uuid pool
    #[derive(Clone, Copy)]
    pub(crate) enum F {
        AnyObject,
        Object(u8),
        AnyAny,
        ObjectAny(u8),
        AnyService(u8),
        ObjectService(u8, u8),
    }

    fn mk(f: F) -> BusListenerFilter {
        match f {
            F::AnyObject => BusListenerFilter::any_object(),
            F::Object(u) => BusListenerFilter::object(obj_uuid(u)),
            F::AnyAny => BusListenerFilter::any_object_any_service(),
            F::ObjectAny(u) => BusListenerFilter::specific_object_any_service(obj_uuid(u)),
            F::AnyService(su) => BusListenerFilter::any_object_specific_service(svc_uuid(su)),
            F::ObjectService(u, su) => BusListenerFilter::specific_object_and_service(obj_uuid(u), svc_uuid(su)),
        }
    }

    /// specification of the filter predicate, written independently of `BusListenerFilter::matches_*`
    fn want_object(fs: &[F], o: ObjSpec) -> bool {
        let mut m = false;
        let mut i = 0;
        while i < fs.len() {
            m |= match fs[i] {
                F::AnyObject => true,
                F::Object(u) => u == o.0,
                _ => false,
            };
            i += 1;
        }
        m
    }

    fn want_service(fs: &[F], sv: SvcSpec) -> bool {
        let mut m = false;
        let mut i = 0;
        while i < fs.len() {
            m |= match fs[i] {
                F::AnyAny => true,
                F::ObjectAny(u) => u == sv.0,
                F::AnyService(su) => su == sv.2,
                F::ObjectService(u, su) => u == sv.0 && su == sv.2,
                _ => false,
            };
            i += 1;
        }
        m
    }

    /// Listener 40 of connection 0 with the given filters (at most two: CAP), not started unless
    /// `started`; a second listener 41 of connection 1. `scope`: 0 current, 1 new, 2 all.
    /// `cookie`: 40 own listener, 41 somebody else's, 42 unknown.
    fn start_lemma(shape: RegShape, fs: &'static [F], scope: u8, started: bool, cookie: u8) {
        let mut w = reg_world(shape);
        set_send_fails(0, false);
        let mut l = BusListener::new(conn(0));
        let mut i = 0;
        while i < fs.len() {
            l.add_filter(mk(fs[i]));
            i += 1;
        }
        if started {
            l.start(if kani::any() { BusListenerScope::New } else { BusListenerScope::Current });
        }
        let scope0 = blv::scope(&l);
        w.b.bus_listeners.insert(listener_cookie(40), l);
        csv::bus_listeners_mut(w.b.conns.get_mut(&conn(0)).unwrap()).insert(listener_cookie(40));
        w.b.bus_listeners.insert(listener_cookie(41), BusListener::new(conn(1)));
        csv::bus_listeners_mut(w.b.conns.get_mut(&conn(1)).unwrap()).insert(listener_cookie(41));
        let serial: u32 = kani::any();
        let sc = match scope {
            0 => BusListenerScope::Current,
            1 => BusListenerScope::New,
            _ => BusListenerScope::All,
        };
        let r = w.b.start_bus_listener(&conn(0), StartBusListener { serial, cookie: listener_cookie(cookie), scope: sc });
        assert!(r.is_ok());
        assert!(log_len() >= 1 && log(0).to == 0 && log(0).kind == K::StartBusListenerReply && log(0).serial == serial, "the reply comes first");
        assert!(log_count_to(1) == 0, "nothing goes to other connections");
        if cookie != 40 {
            assert!(log(0).code == 1 && log_len() == 1, "unknown or foreign listener: InvalidBusListener and nothing else");
            assert!(blv::scope(w.b.bus_listeners.get(&listener_cookie(41)).unwrap()).is_none(), "somebody else's listener is not started");
        } else if started {
            assert!(log(0).code == 2 && log_len() == 1, "AlreadyStarted and nothing else");
            assert!(blv::scope(w.b.bus_listeners.get(&listener_cookie(40)).unwrap()) == scope0, "the running scope is untouched");
        } else {
            assert!(log(0).code == 0);
            assert!(blv::scope(w.b.bus_listeners.get(&listener_cookie(40)).unwrap()) == Some(sc));
            if scope == 1 {
                assert!(log_len() == 1, "scope New: no current entities are reported");
            } else {
                let mut n = 0;
                let mut i = 0;
                while i < shape.objs.len() {
                    let o = shape.objs[i];
                    let got = count_kind_to(0, K::EmitBusEvent, |e| e.has_serial && e.cookie == 40 && e.code == 0 && e.aux == ((o.0 as u32) << 8 | o.1 as u32));
                    assert!(got == if want_object(fs, o) { 1 } else { 0 }, "exactly one tagged created-event per matching object, none for the others");
                    n += got;
                    i += 1;
                }
                let mut i = 0;
                while i < shape.svcs.len() {
                    let sv = shape.svcs[i];
                    let got = count_kind_to(0, K::EmitBusEvent, |e| e.has_serial && e.cookie == 40 && e.code == 2 && e.aux == ((sv.0 as u32) << 8 | sv.1 as u32) && e.aux2 == ((sv.2 as u32) << 8 | sv.3 as u32));
                    assert!(got == if want_service(fs, sv) { 1 } else { 0 }, "exactly one tagged created-event per matching service, none for the others");
                    n += got;
                    i += 1;
                }
                assert!(log_len() == n + 2, "nothing else carries the tag");
                let last = log(log_len() - 1);
                assert!(last.kind == K::BusListenerCurrentFinished && last.cookie == 40, "followed by one end-of-current marker");
            }
        }
        std::mem::forget(w);
    }

    macro_rules! inst {
        ($($name:ident = ($shape:expr, $fs:expr, $scope:expr, $started:expr, $cookie:expr);)*) => {$(
            #[kani::proof]
            #[kani::unwind(18)]
            fn $name() {
                start_lemma($shape, $fs, $scope, $started, $cookie);
            }
        )*};
    }

    const ONE_SVC: RegShape = RegShape { objs: &[(0, 10, 0)], svcs: &[(0, 10, 0, 20)] };
    const TWO_SVCS: RegShape = RegShape { objs: &[(0, 10, 0)], svcs: &[(0, 10, 0, 20), (0, 10, 1, 21)] };
    const TWO_OWNERS: RegShape = RegShape { objs: &[(0, 10, 0), (1, 11, 1)], svcs: &[(0, 10, 0, 20), (1, 11, 0, 21)] };

    inst! {
        q_c10_c11_start_all_any_object_scan_path = (ONE_SVC, &[F::AnyObject], 2, false, 40);
        q_c10_c11_start_current_specific_object_two_objects = (TWO_OWNERS, &[F::Object(1)], 0, false, 40);
        q_c10_c11_start_new_reports_nothing = (ONE_SVC, &[F::AnyObject, F::AnyAny], 1, false, 40);
        q_c10_c11_start_foreign_listener = (ONE_SVC, &[F::AnyObject], 2, false, 41);
    }
    #[cfg(not(verif_quick))]
    inst! {
        t_c10_c11_start_all_any_object_and_any_service = (ONE_SVC, &[F::AnyObject, F::AnyAny], 2, false, 40);
        t_c10_c11_start_all_any_service_scan_path = (ONE_SVC, &[F::AnyAny], 2, false, 40);
        t_c10_c11_start_current_specific_service = (TWO_SVCS, &[F::ObjectService(0, 1)], 0, false, 40);
        t_c10_c11_start_all_any_service_uuid = (TWO_OWNERS, &[F::AnyService(0)], 2, false, 40);
        t_c10_c11_start_all_object_any_service = (TWO_OWNERS, &[F::ObjectAny(1), F::Object(0)], 2, false, 40);
        t_c10_c11_start_all_mixed_fast_and_scan = (TWO_OWNERS, &[F::ObjectService(0, 0), F::AnyAny], 2, false, 40);
        t_c10_c11_start_current_no_filters = (TWO_OWNERS, &[], 0, false, 40);
        t_c10_c11_start_already_started = (ONE_SVC, &[F::AnyObject], 2, true, 40);
        t_c10_c11_start_unknown_listener = (ONE_SVC, &[F::AnyObject], 0, false, 42);
        t_c10_c11_start_current_missing_specific = (ONE_SVC, &[F::Object(1), F::ObjectService(1, 0)], 0, false, 40);
    }

    #[cfg(verif_replay)]
    include!("/verif/.cache/replay/broker__verif__bus_start.rs");
}

// =================================================================================================
// C09 / C03: connection teardown leaves no residue, every affected peer is told once
// =================================================================================================
#[cfg(any(verif_unit = "all", verif_unit = "shutdown", verif_unit = "shutdown_t"))]
mod shutdown {
    use super::*;

    /// two connections whose peers are alive or gone as given (concrete: with symbolic liveness
    /// the lengths of the deferred-work queues become symbolic and `process_loop_result` is
    /// unrolled to the bound on every path - no lemma finished in 25 min), versions symbolic
    fn two_conns(alive0: bool, alive1: bool) -> World {
        let mut w = new_world();
        add_conn(&mut w, 0);
        add_conn(&mut w, 1);
        set_send_fails(0, !alive0);
        set_send_fails(1, !alive1);
        w
    }

    /// Connection 0 leaves. Concrete shape, symbolic scalars (event id, serials, versions, forced
    /// or not): it owns object (0, 10) with service (0, 20); connection 1 is subscribed to one
    /// event of that service and/or to the service itself and/or has one call pending on it.
    fn owner_leaves(with_sub: bool, with_svc_sub: bool, with_call: bool, alive0: bool, alive1: bool) {
        let mut w = two_conns(alive0, alive1);
        add_object(&mut w, 0, 10, 0);
        add_service(&mut w, 0, 10, 0, 20, ServiceInfo::new(1));
        let ev: u32 = kani::any();
        let s: u32 = kani::any();
        let cs: u32 = kani::any();
        if with_sub {
            w.b.svcs.get_mut(&(obj_uuid(0), svc_uuid(0))).unwrap().subscribe_event(ev, conn(1));
            w.b.conns.get_mut(&conn(1)).unwrap().subscribe_event(svc_cookie(20), ev);
        }
        if with_svc_sub {
            w.b.svcs.get_mut(&(obj_uuid(0), svc_uuid(0))).unwrap().subscribe(conn(1));
            w.b.conns.get_mut(&conn(1)).unwrap().subscribe(svc_cookie(20));
        }
        if with_call {
            install_call(&mut w, &CallSpec { present: true, serial: s, caller: 1, caller_serial: cs, aborted: false }, 0);
        }
        let send_shutdown: bool = kani::any();
        w.b.shutdown_connection(&mut w.st, &conn(0), send_shutdown);
        w.b.process_loop_result(&mut w.st);
        // no residue
        assert!(!has_conn(&w, 0));
        assert!(w.b.objs.is_empty() && w.b.obj_uuids.is_empty(), "its objects are gone");
        assert!(w.b.svcs.is_empty() && w.b.svc_uuids.is_empty(), "and their services");
        assert!(smv::elems(&w.b.function_calls).is_empty(), "no pending call survives its service");
        assert!(!w.st.has_work_left());
        let notified = with_sub || with_svc_sub;
        if alive1 || !(notified || with_call) {
            assert!(has_conn(&w, 1), "a peer that can be reached stays");
            let c1 = w.b.conns.get(&conn(1)).unwrap();
            assert!(csv::events(c1).is_empty() && csv::subscriptions(c1).is_empty(), "the peer's subscriptions to the dead service end");
            assert!(csv::calls(c1).is_empty(), "the peer's call bookkeeping is released");
            let destroyed = count_kind_to(1, K::ServiceDestroyed, |e| e.cookie == 20);
            assert!(destroyed == if notified && alive1 { 1 } else { 0 }, "a subscribed peer is told once that the service is gone");
            let replies = count_kind_to(1, K::CallFunctionReply, |e| e.serial == cs && e.code == 3);
            assert!(replies == if with_call && alive1 { 1 } else { 0 }, "a pending call is answered once with InvalidService");
            assert!(log_count_to(1) == destroyed + replies, "nothing else reaches the peer");
        } else {
            // the peer's transport failed while it was being told: it is torn down as well
            assert!(w.b.conns.is_empty(), "a peer that cannot be told is torn down as well: the broker is empty");
        }
        let to0 = log_count_to(0);
        assert!(to0 == if send_shutdown && alive0 { 1 } else { 0 });
        if to0 == 1 {
            assert!(find_where(|e| e.to == 0).unwrap().kind == K::Shutdown, "a forced shutdown is announced to the connection");
        }
        kani::cover!(send_shutdown);
        kani::cover!(!send_shutdown);
        std::mem::forget(w);
    }

    /// Connection 1 leaves while subscribed to / calling a service of connection 0: the owner is
    /// told to stop producing the event and to abort the call.
    fn subscriber_leaves(alive0: bool) {
        let mut w = two_conns(alive0, true);
        add_object(&mut w, 0, 10, 0);
        add_service(&mut w, 0, 10, 0, 20, ServiceInfo::new(1));
        let ev: u32 = kani::any();
        let s: u32 = kani::any();
        let cs: u32 = kani::any();
        w.b.svcs.get_mut(&(obj_uuid(0), svc_uuid(0))).unwrap().subscribe_event(ev, conn(1));
        w.b.conns.get_mut(&conn(1)).unwrap().subscribe_event(svc_cookie(20), ev);
        install_call(&mut w, &CallSpec { present: true, serial: s, caller: 1, caller_serial: cs, aborted: false }, 0);
        let owner_minor = minor_of(&w, 0);
        w.b.shutdown_connection(&mut w.st, &conn(1), false);
        w.b.process_loop_result(&mut w.st);
        assert!(!has_conn(&w, 1) && !w.st.has_work_left());
        if alive0 {
            assert!(has_conn(&w, 0));
            assert!(svv::events(w.b.svcs.get(&(obj_uuid(0), svc_uuid(0))).unwrap()).is_empty(), "no subscriber entry of the dead connection stays");
            let unsub = count_kind_to(0, K::UnsubscribeEvent, |e| e.cookie == 20 && e.aux == ev);
            assert!(unsub == 1, "the owner is told to stop producing the event: 1 -> 0 caused by a disconnect");
            let abort = count_kind_to(0, K::AbortFunctionCall, |e| e.serial == s);
            assert!(abort == if owner_minor >= 16 { 1 } else { 0 }, "the owner is told to abort iff it speaks >= 1.16");
            assert!(log_count_to(0) == unsub + abort);
            assert!(call_pending(&w, s) == Some((cs, 1, true)), "the call stays, marked aborted, until the owner answers or its service goes");
        } else {
            assert!(w.b.conns.is_empty() && w.b.objs.is_empty() && w.b.svcs.is_empty() && smv::elems(&w.b.function_calls).is_empty(), "an owner that cannot be told is torn down as well: the broker is empty");
        }
        assert!(log_count_to(1) == 0, "nothing is sent to the connection that left");
        kani::cover!(owner_minor >= 16);
        kani::cover!(owner_minor < 16);
        std::mem::forget(w);
    }

    /// Connection 0 leaves while holding channel ends and a bus listener: the peer of each channel
    /// is told exactly once that the end is closed, a channel without a claimed end left is removed,
    /// the listener is gone.
    fn leaves_with_channel_and_listener(sd: chv::EndSpec, rc: chv::EndSpec, alive1: bool) {
        let mut w = two_conns(true, alive1);
        let ch = chv::mk_channel(sd, rc);
        if let chv::EndSpec::C(o) = sd {
            csv::senders_mut(w.b.conns.get_mut(&conn(o)).unwrap()).insert(chan_cookie(30));
        }
        if let chv::EndSpec::C(o) = rc {
            csv::receivers_mut(w.b.conns.get_mut(&conn(o)).unwrap()).insert(chan_cookie(30));
        }
        w.b.channels.insert(chan_cookie(30), ch);
        w.b.bus_listeners.insert(listener_cookie(40), BusListener::new(conn(0)));
        csv::bus_listeners_mut(w.b.conns.get_mut(&conn(0)).unwrap()).insert(listener_cookie(40));
        w.b.shutdown_connection(&mut w.st, &conn(0), false);
        w.b.process_loop_result(&mut w.st);
        assert!(!has_conn(&w, 0) && !w.st.has_work_left());
        assert!(w.b.bus_listeners.is_empty(), "its bus listeners are gone");
        let s_mine = matches!(sd, chv::EndSpec::C(0));
        let r_mine = matches!(rc, chv::EndSpec::C(0));
        let peer_end = if s_mine && matches!(rc, chv::EndSpec::C(1)) { Some(0u8) } else if r_mine && matches!(sd, chv::EndSpec::C(1)) { Some(1u8) } else { None };
        match peer_end {
            Some(code) if alive1 => {
                let told = count_kind_to(1, K::ChannelEndClosed, |e| e.cookie == 30 && e.code == code);
                assert!(told == 1 && log_count_to(1) == 1, "the peer is told exactly once which end was closed");
                let ch = w.b.channels.get(&chan_cookie(30)).unwrap();
                assert!(chv::sender_claimed(ch).map(|(o, _)| o != conn(0)).unwrap_or(true) && chv::receiver_claimed(ch).map(|(o, _)| o != conn(0)).unwrap_or(true), "no end names the dead connection");
                assert!(inv_chan(&w.b));
            }
            _ => {
                assert!(w.b.channels.is_empty(), "no claimed end left (or the peer is gone too): the channel is removed");
                if !alive1 && peer_end.is_some() {
                    assert!(w.b.conns.is_empty());
                }
            }
        }
        assert!(log_count_to(0) == 0);
        std::mem::forget(w);
    }

    /// The synchronous part of a teardown alone (no deferred work): connection 0 owns object
    /// (0, 10) without services and is removed, forced or not, its peer reachable or not. Whatever
    /// happens to the Shutdown announcement, the connection and its object are gone from every map
    /// and one destruction event is queued.
    fn owner_of_plain_object_is_removed(alive0: bool) {
        let mut w = two_conns(alive0, true);
        add_object(&mut w, 0, 10, 0);
        let send_shutdown: bool = kani::any();
        w.b.shutdown_connection(&mut w.st, &conn(0), send_shutdown);
        assert!(!has_conn(&w, 0) && has_conn(&w, 1));
        assert!(w.b.objs.is_empty() && w.b.obj_uuids.is_empty(), "a disconnect destroys everything the connection owned");
        let q = stv::destroy_object(&w.st);
        assert!(q.len() == 1 && q[0] == ObjectId::new(obj_uuid(0), obj_cookie(10)));
        assert!(log_count_to(0) == if send_shutdown && alive0 { 1 } else { 0 } && log_count_to(1) == 0);
        kani::cover!(send_shutdown);
        std::mem::forget(w);
    }

    macro_rules! inst {
        ($($name:ident = $lemma:ident($($arg:expr),*);)*) => {$(
            #[kani::proof]
            #[kani::unwind(18)]
            fn $name() {
                $lemma($($arg),*);
            }
        )*};
    }
    use chv::EndSpec::{C, U, X};

    // Not registered (cfg verif_experimental): every teardown lemma, down to the synchronous
    // `shutdown_connection` of the owner of one object without services (out of memory after 517 s /
    // timeout at 600 s). `shutdown_connection` followed
    // by `process_loop_result` runs the SAT back end out of memory at 14 GB even when the leaving
    // connection only holds a channel end and a bus listener (that instance was proved once, in
    // 642 s, with a 20 GB limit and nothing else running).
    #[cfg(verif_experimental)]
    inst! {
        q_c09_c03_forced_shutdown_of_unreachable_owner = owner_of_plain_object_is_removed(false);
        q_c09_c03_shutdown_of_owner = owner_of_plain_object_is_removed(true);
        q_c09_c05_leaves_with_sender_end_and_listener = leaves_with_channel_and_listener(C(0), C(1), true);
        q_c09_c05_leaves_with_both_ends = leaves_with_channel_and_listener(C(0), C(0), true);
        t_c09_c05_leaves_with_receiver_end = leaves_with_channel_and_listener(C(1), C(0), true);
        t_c09_c05_leaves_with_unclaimed_peer_end = leaves_with_channel_and_listener(C(0), U, true);
        t_c09_c05_leaves_with_closed_peer_end = leaves_with_channel_and_listener(X, C(0), true);
        t_c09_c05_leaves_peer_unreachable = leaves_with_channel_and_listener(C(0), C(1), false);
    }
    // Not registered (cfg verif_experimental): teardown of a connection that owns an object with a
    // service, or is subscribed to / calling one. Every such instance goes through
    // `remove_object` / `remove_service` / `remove_event_subscription` and the SAT back end runs out
    // of memory (> 14 GB), like the successful destroy requests of the registry unit.
    // owner_leaves(event subscriber, service subscriber, pending call, leaving peer alive, other peer alive)
    #[cfg(verif_experimental)]
    inst! {
        q_c09_c03_c04_owner_leaves_with_subscriber = owner_leaves(true, false, false, true, true);
        q_c09_c02_c03_owner_leaves_with_pending_call = owner_leaves(false, false, true, true, true);
        q_c09_c02_c04_subscriber_and_caller_leaves = subscriber_leaves(true);
        t_c09_c02_c03_c04_owner_leaves_with_both = owner_leaves(true, true, true, true, true);
        t_c09_c03_c04_owner_leaves_service_subscriber = owner_leaves(false, true, false, true, true);
        t_c09_c03_owner_leaves_dead_transport = owner_leaves(true, false, true, false, true);
        t_c09_c03_owner_leaves_peer_unreachable = owner_leaves(true, false, false, true, false);
        t_c09_c03_owner_leaves_alone = owner_leaves(false, false, false, false, true);
        t_c09_c02_c04_subscriber_leaves_owner_unreachable = subscriber_leaves(false);
    }

    #[cfg(verif_replay)]
    include!("/verif/.cache/replay/broker__verif__shutdown.rs");
}

// =================================================================================================
// C09: the published statistics gauges equal the true number of live entities (feature statistics)
// =================================================================================================
#[cfg(all(feature = "statistics", any(verif_unit = "all", verif_unit = "stats", verif_unit = "stats_t")))]
mod stats {
    use super::*;

    /// `Instant::now()` is a foreign call (clock_gettime) that Kani cannot execute; the statistics
    /// only store the two instants, so any valid value will do.
    pub(crate) fn fixed_instant() -> std::time::Instant {
        unsafe { std::mem::zeroed() }
    }

    fn gauges_match(w: &World) -> bool {
        w.b.statistics.num_connections == w.b.conns.len()
            && w.b.statistics.num_objects == w.b.objs.len()
            && w.b.statistics.num_services == w.b.svcs.len()
            && w.b.statistics.num_channels == w.b.channels.len()
            && w.b.statistics.num_bus_listeners == w.b.bus_listeners.len()
    }

    /// connections 0 and 1 (1 alive or not as given), one established channel 30 between them, all
    /// gauges in line with the maps
    fn world(alive1: bool) -> World {
        let mut w = new_world();
        add_conn(&mut w, 0);
        add_conn(&mut w, 1);
        set_send_fails(0, false);
        set_send_fails(1, !alive1);
        let ch = chv::mk_channel(chv::EndSpec::C(0), chv::EndSpec::C(0));
        csv::senders_mut(w.b.conns.get_mut(&conn(0)).unwrap()).insert(chan_cookie(30));
        csv::receivers_mut(w.b.conns.get_mut(&conn(0)).unwrap()).insert(chan_cookie(30));
        w.b.channels.insert(chan_cookie(30), ch);
        w.b.statistics.num_connections = 2;
        w.b.statistics.num_channels = 1;
        set_fresh(0x90);
        assert!(gauges_match(&w));
        w
    }

    /// what `handle_event` does with a handler's result
    fn settle(w: &mut World, who: u8, r: Result<(), ()>) {
        if r.is_err() {
            w.st.push_remove_conn(conn(who), false);
        }
        w.b.process_loop_result(&mut w.st);
    }

    /// Every create request leaves the gauges equal to the sizes of the maps right after the
    /// handler - also when the reply cannot be delivered (the requester is then torn down, which
    /// releases what was registered; with `teardown` the deferred work is run as well and the gauges
    /// are compared again).
    fn create_lemma(what: u8, alive1: bool, teardown: bool) {
        let mut w = world(alive1);
        let serial: u32 = kani::any();
        let r = match what {
            0 => w.b.create_channel(&conn(1), CreateChannel { serial, end: ChannelEndWithCapacity::Sender }),
            1 => w.b.create_channel(&conn(1), CreateChannel { serial, end: ChannelEndWithCapacity::Receiver(kani::any()) }),
            2 => w.b.create_object(&mut w.st, &conn(1), CreateObject { serial, uuid: obj_uuid(0) }),
            _ => w.b.create_bus_listener(&conn(1), CreateBusListener { serial }),
        };
        assert!(r.is_ok() == alive1);
        assert!(gauges_match(&w), "the gauges equal the number of live entities right after the request");
        if teardown {
            settle(&mut w, 1, r);
            assert!(has_conn(&w, 1) == alive1);
            assert!(gauges_match(&w), "and after the requester has been torn down");
        }
        std::mem::forget(w);
    }

    macro_rules! inst {
        ($($name:ident = ($what:expr, $alive:expr, $td:expr);)*) => {$(
            #[kani::proof]
            #[kani::unwind(18)]
            #[kani::stub(std::time::Instant::now, fixed_instant)]
            #[kani::stub(aldrin_core::ObjectCookie::new_v4, fresh_obj_cookie)]
            #[kani::stub(aldrin_core::ChannelCookie::new_v4, fresh_chan_cookie)]
            #[kani::stub(aldrin_core::BusListenerCookie::new_v4, fresh_listener_cookie)]
            fn $name() {
                create_lemma($what, $alive, $td);
            }
        )*};
    }

    inst! {
        q_c09_gauges_create_channel_sender_reply_undeliverable = (0, false, false);
        q_c09_gauges_create_channel_sender = (0, true, true);
        q_c09_gauges_create_channel_receiver_reply_undeliverable = (1, false, false);
        q_c09_gauges_create_object_reply_undeliverable = (2, false, false);
        q_c09_gauges_create_bus_listener_reply_undeliverable = (3, false, false);
    }
    #[cfg(not(verif_quick))]
    inst! {
        t_c09_gauges_create_channel_receiver = (1, true, true);
        t_c09_gauges_create_object = (2, true, true);
        t_c09_gauges_create_bus_listener = (3, true, true);
    }
    // Not registered: the same lemmas followed by the teardown of the requester (`teardown`). The
    // SAT back end runs out of memory (14 GB) on `shutdown_connection` + `process_loop_result`.
    #[cfg(verif_experimental)]
    inst! {
        x_c09_gauges_create_channel_sender_reply_undeliverable_teardown = (0, false, true);
        x_c09_gauges_create_channel_receiver_reply_undeliverable_teardown = (1, false, true);
        x_c09_gauges_create_bus_listener_reply_undeliverable_teardown = (3, false, true);
    }

    #[cfg(verif_replay)]
    include!("/verif/.cache/replay/broker__verif__stats.rs");
}

// =================================================================================================
// C11: messages that only a broker may send are refused, nothing else happens
// =================================================================================================
#[cfg(any(verif_unit = "all", verif_unit = "wrongdir", verif_unit = "wrongdir_t"))]
mod wrongdir {
    use super::*;
    use aldrin_core::message::{Connect, Connect2, ConnectReply};

    fn refused(msg: Message) {
        let mut w = gate_world();
        let r = w.b.handle_message(&mut w.st, &conn(0), msg);
        assert!(r.is_err(), "a broker-to-client message sent by a client closes that connection");
        assert!(log_len() == 0 && bus_is_empty(&w), "and has no other effect");
        std::mem::forget(w);
    }

    macro_rules! wrong {
        ($($name:ident = $msg:expr;)*) => {$(
            #[kani::proof]
            #[kani::unwind(18)]
            fn $name() {
                refused($msg);
            }
        )*};
    }

    wrong! {
        q_c11_wrongdir_connect = Message::Connect(Connect { version: kani::any(), value: small_value() });
        q_c11_wrongdir_connect2 = Message::Connect2(Connect2 { major_version: kani::any(), minor_version: kani::any(), value: small_value() });
        q_c11_wrongdir_connect_reply = Message::ConnectReply(ConnectReply::IncompatibleVersion(kani::any()));
        q_c11_wrongdir_create_object_reply = Message::CreateObjectReply(CreateObjectReply { serial: kani::any(), result: CreateObjectResult::DuplicateObject });
        q_c11_wrongdir_destroy_object_reply = Message::DestroyObjectReply(DestroyObjectReply { serial: kani::any(), result: DestroyObjectResult::Ok });
        q_c11_wrongdir_channel_end_closed = Message::ChannelEndClosed(ChannelEndClosed { cookie: chan_cookie(kani::any()), end: ChannelEnd::Sender });
        q_c11_wrongdir_channel_end_claimed = Message::ChannelEndClaimed(ChannelEndClaimed { cookie: chan_cookie(kani::any()), end: ChannelEndWithCapacity::Receiver(kani::any()) });
        q_c11_wrongdir_item_received = Message::ItemReceived(ItemReceived { cookie: chan_cookie(kani::any()), value: small_value() });
        q_c11_wrongdir_sync_reply = Message::SyncReply(SyncReply { serial: kani::any() });
        q_c11_wrongdir_service_destroyed = Message::ServiceDestroyed(ServiceDestroyed { service_cookie: svc_cookie(kani::any()) });
        q_c11_wrongdir_emit_bus_event = Message::EmitBusEvent(EmitBusEvent { cookie: None, event: BusEvent::ObjectCreated(ObjectId::new(obj_uuid(kani::any()), obj_cookie(kani::any()))) });
        q_c11_wrongdir_current_finished = Message::BusListenerCurrentFinished(BusListenerCurrentFinished { cookie: listener_cookie(kani::any()) });
    }

    /// A well-behaved request is still served on the same (untouched) state: Sync is answered.
    #[kani::proof]
    #[kani::unwind(18)]
    fn q_c11_sync_is_answered() {
        let mut w = gate_world();
        let serial: u32 = kani::any();
        let r = w.b.handle_message(&mut w.st, &conn(0), Message::Sync(Sync { serial }));
        assert!(r.is_ok() && log_len() == 1 && log(0).kind == K::SyncReply && log(0).serial == serial && log(0).to == 0);
        std::mem::forget(w);
    }

    #[cfg(verif_replay)]
    include!("/verif/.cache/replay/broker__verif__wrongdir.rs");
}

// =================================================================================================
// C02 / C03 / C12: forwarding a call (call_function / call_function2 -> call_function_impl)
// =================================================================================================
#[cfg(any(verif_unit = "all", verif_unit = "calls_fwd", verif_unit = "calls_fwd_t"))]
mod calls_fwd {
    use super::*;

    /// A call is accepted exactly while the service cookie is live; it is then forwarded exactly
    /// once, to the owner of the service's object, under a broker serial that is not in use, with
    /// cookie / function / requested version / payload unchanged and the payload tagged with the
    /// caller's protocol version; the owner gets the message kind its own version understands
    /// (CallFunction2 iff >= 1.19). The caller's serial is recorded so that exactly one reply can
    /// be routed back; a caller serial that is still in use closes the caller and records nothing.
    /// A dead cookie is answered once with InvalidService under the caller's serial.
    ///
    /// `via2`: the request arrives as CallFunction2 (else as the legacy CallFunction).
    fn call_lemma(ca: u8, who: u8, shape: (bool, bool, bool, bool), known: bool, via2: bool) {
        let owner = 0;
        let mut cw = call_world(owner, ca, ca, shape);
        let serial: u32 = kani::any();
        let function: u32 = kani::any();
        let want: Option<u32> = if via2 && kani::any() { Some(kani::any()) } else { None };
        let cookie = if known { svc_cookie(20) } else { svc_cookie(21) };
        let who_minor = minor_of(&cw.w, who);
        let owner_minor = minor_of(&cw.w, owner);
        let dup = backref(&cw.w, who, serial).is_some();
        let a0 = cw.a;
        let r = if via2 {
            cw.w.b.call_function2(&mut cw.w.st, &conn(who), CallFunction2 { serial, service_cookie: cookie, function, version: want, value: small_value() })
        } else {
            cw.w.b.call_function(&mut cw.w.st, &conn(who), CallFunction { serial, service_cookie: cookie, function, value: small_value() })
        };
        let n_calls = smv::elems(&cw.w.b.function_calls).len();
        let n0 = a0.present as usize;
        if via2 && who_minor < 19 {
            assert!(r.is_err() && log_len() == 0 && n_calls == n0, "CallFunction2 below 1.19 closes the connection");
            assert!(spec_state_unchanged(&cw, &a0));
        } else if !known {
            assert!(n_calls == n0 && spec_state_unchanged(&cw, &a0), "nothing is recorded for a dead cookie");
            if send_fails(who) {
                assert!(r.is_err() && log_len() == 0);
            } else {
                assert!(r.is_ok() && log_len() == 1);
                let rep = log(0);
                assert!(rep.to == who && rep.kind == K::CallFunctionReply && rep.serial == serial && rep.code == 3, "exactly one InvalidService reply under the caller's serial");
            }
            assert!(backref(&cw.w, who, serial).is_some() == dup);
        } else if dup {
            assert!(r.is_err() && log_len() == 0, "a caller serial that is still in use closes the caller");
            assert!(n_calls == n0 && spec_state_unchanged(&cw, &a0), "and leaves no trace");
        } else {
            assert!(r.is_ok());
            assert!(n_calls == n0 + 1, "one new pending call");
            let (s, o) = backref(&cw.w, who, serial).unwrap();
            assert!(o == owner, "the caller's entry names the owner of the service's object");
            assert!(!(a0.present && a0.serial == s), "the broker serial is not one that is in use");
            assert!(call_pending(&cw.w, s) == Some((serial, who, false)));
            assert!(svv::function_calls(cw.w.b.svcs.get(&(obj_uuid(0), svc_uuid(0))).unwrap()).contains(&s));
            assert!(spec_state_unchanged(&cw, &a0), "other pending calls are untouched");
            if send_fails(owner) {
                assert!(log_len() == 0);
                let q = stv::remove_conns(&cw.w.st);
                assert!(q.len() == 1 && q[0].0 == conn(owner), "an owner that cannot be reached is torn down (which answers the call)");
            } else {
                assert!(log_len() == 1, "forwarded exactly once");
                let f = log(0);
                assert!(f.to == owner, "to the owner and to nobody else");
                assert!(f.kind == if owner_minor >= 19 { K::CallFunction2 } else { K::CallFunction }, "in the form the owner's version understands");
                assert!(f.serial == s && f.cookie == 20 && f.aux == function);
                assert!(f.vlen == 2 && f.v0 == 3 && f.v1 == 7, "payload unchanged");
                assert!(f.vminor as u32 == who_minor, "payload tagged with the caller's version");
                if owner_minor >= 19 {
                    assert!(f.has_serial == want.is_some() && (want.is_none() || f.aux2 == want.unwrap()), "requested version passed on");
                }
                assert!(stv::remove_conns(&cw.w.st).is_empty());
            }
        }
        kani::cover!(!known || (r.is_ok() && log_len() == 1 && log(0).kind == K::CallFunction));
        kani::cover!(!known || (r.is_ok() && log_len() == 1 && log(0).kind == K::CallFunction2));
        kani::cover!(known || (r.is_ok() && log_len() == 1));
        std::mem::forget(cw);
    }

    macro_rules! inst {
        ($($name:ident = ($ca:expr, $who:expr, $shape:expr, $known:expr, $via2:expr);)*) => {$(
            #[kani::proof]
            #[kani::unwind(18)]
            fn $name() {
                call_lemma($ca, $who, $shape, $known, $via2);
            }
        )*};
    }

    const NONE_PENDING: (bool, bool, bool, bool) = (false, false, false, false);
    const ONE: (bool, bool, bool, bool) = (true, false, false, false);
    const ONE_ABORTED: (bool, bool, bool, bool) = (true, true, false, false);
    inst! {
        q_c02_c03_c12_c11_call_first = (1, 1, NONE_PENDING, true, false);
        q_c02_c03_c12_c11_call2_first = (1, 1, NONE_PENDING, true, true);
        q_c02_c03_c12_c11_call_after_abort_serial_reuse = (1, 1, ONE_ABORTED, true, false);
        q_c02_c03_c12_c11_call_dead_cookie = (1, 1, ONE, false, false);
    }
    #[cfg(not(verif_quick))]
    inst! {
        q_c02_c03_c12_c11_call_second_same_caller = (1, 1, ONE, true, false);
        q_c02_c03_c12_c11_call2_second_other_caller = (0, 1, ONE, true, true);
        q_c02_c03_c12_c11_call_self = (0, 0, ONE, true, false);
        q_c02_c03_c12_c11_call2_dead_cookie = (1, 1, NONE_PENDING, false, true);
    }

    #[cfg(verif_replay)]
    include!("/verif/.cache/replay/broker__verif__calls_fwd.rs");
}
