//! One-step lemmas on the broker's request handlers. Child module of broker/src/broker.rs, so the
//! private handlers are called directly (not through `handle_event`) on small symbolic states.
//! `cfg(kani)` only.
#![allow(dead_code, unused_imports, unused_variables, missing_debug_implementations, missing_docs, unreachable_pub, unnameable_types)]

use super::channel::verif as chv;
use super::conn_state::verif as csv;
use super::object::verif as obv;
use super::service::verif as svv;
use super::state::verif as stv;
use super::*;
use crate::bus_listener::verif as blv;
use crate::serial_map::verif as smv;
use crate::verif::env::*;
use crate::verif_collections::CAP;

pub(crate) struct World {
    pub b: Broker,
    pub st: State,
}

pub(crate) fn new_world() -> World {
    let mut b = Broker::new();
    let h = b.handle.take();
    std::mem::forget(h);
    World { b, st: State::new() }
}

/// Connection `tag` with an arbitrary negotiated version; its peer may be gone (sends fail).
pub(crate) fn add_conn(w: &mut World, tag: u8) {
    let v = any_version();
    w.b.conns.insert(conn(tag), csv::new_state(tag, v));
    set_send_fails(tag, kani::any());
}

pub(crate) fn add_conn_ok(w: &mut World, tag: u8) {
    let v = any_version();
    w.b.conns.insert(conn(tag), csv::new_state(tag, v));
    set_send_fails(tag, false);
}

pub(crate) fn has_conn(w: &World, tag: u8) -> bool {
    w.b.conns.contains_key(&conn(tag))
}

pub(crate) fn version_of(w: &World, tag: u8) -> ProtocolVersion {
    w.b.conns.get(&conn(tag)).unwrap().version()
}

/// Live object `uuid byte u`, cookie byte `c`, owned by connection `owner` (which must exist).
pub(crate) fn add_object(w: &mut World, u: u8, c: u8, owner: u8) {
    w.b.obj_uuids.insert(obj_cookie(c), obj_uuid(u));
    w.b.objs.insert(obj_uuid(u), Object::new(conn(owner), obj_cookie(c)));
    csv::objects_mut(w.b.conns.get_mut(&conn(owner)).unwrap()).insert(obj_cookie(c));
}

/// Live service on object (u, c): service uuid byte `su`, cookie byte `k`.
pub(crate) fn add_service(w: &mut World, u: u8, c: u8, su: u8, k: u8, info: ServiceInfo) {
    let oid = ObjectId::new(obj_uuid(u), obj_cookie(c));
    w.b.svc_uuids.insert(svc_cookie(k), (oid, svc_uuid(su), info));
    w.b.svcs.insert((obj_uuid(u), svc_uuid(su)), Service::new(svc_cookie(k), obj_cookie(c)));
    obv::svcs_mut(w.b.objs.get_mut(&obj_uuid(u)).unwrap()).insert(svc_cookie(k));
}

pub(crate) fn any_info() -> ServiceInfo {
    let mut i = ServiceInfo::new(kani::any());
    if kani::any() {
        i = i.set_subscribe_all(kani::any());
    }
    i
}

// -------------------------------------------------------------------------------------------------
// registry invariant (C03)
// -------------------------------------------------------------------------------------------------

/// Cross-references between `objs`, `obj_uuids`, `svcs`, `svc_uuids` and the owners' `objects`.
pub(crate) fn inv_reg(b: &Broker) -> bool {
    let mut ok = true;
    let mut i = 0;
    while i < CAP {
        if let Some((uuid, obj)) = &b.objs.slots[i] {
            ok &= b.obj_uuids.get(&obj.cookie()) == Some(uuid);
            match b.conns.get(obj.conn_id()) {
                Some(c) => ok &= csv::objects(c).contains(&obj.cookie()),
                None => ok = false,
            }
            let mut j = 0;
            while j < CAP {
                if let Some(k) = &obv::svcs(obj).slots[j] {
                    match b.svc_uuids.get(k) {
                        Some((oid, su, _)) => {
                            ok &= oid.uuid == *uuid && oid.cookie == obj.cookie();
                            ok &= b.svcs.get(&(*uuid, *su)).map(|s| s.cookie() == *k).unwrap_or(false);
                        }
                        None => ok = false,
                    }
                }
                j += 1;
            }
        }
        if let Some((cookie, uuid)) = &b.obj_uuids.slots[i] {
            ok &= b.objs.get(uuid).map(|o| o.cookie() == *cookie).unwrap_or(false);
        }
        if let Some((k, (oid, su, _))) = &b.svc_uuids.slots[i] {
            match b.objs.get(&oid.uuid) {
                Some(o) => ok &= o.cookie() == oid.cookie && obv::svcs(o).contains(k),
                None => ok = false,
            }
            ok &= b
                .svcs
                .get(&(oid.uuid, *su))
                .map(|s| s.cookie() == *k && s.object_cookie() == oid.cookie)
                .unwrap_or(false);
        }
        if let Some(((u, su), svc)) = &b.svcs.slots[i] {
            ok &= b
                .svc_uuids
                .get(&svc.cookie())
                .map(|(oid, su2, _)| oid.uuid == *u && su2 == su && oid.cookie == svc.object_cookie())
                .unwrap_or(false);
        }
        if let Some((cid, c)) = &b.conns.slots[i] {
            let mut j = 0;
            while j < CAP {
                if let Some(oc) = &csv::objects(c).slots[j] {
                    ok &= b
                        .obj_uuids
                        .get(oc)
                        .and_then(|u| b.objs.get(u))
                        .map(|o| o.conn_id() == cid && o.cookie() == *oc)
                        .unwrap_or(false);
                }
                j += 1;
            }
        }
        i += 1;
    }
    ok
}

/// A small registry world: connections 0 and 1 (both present), up to two objects with uuids from
/// the pool {0,1} (distinct), cookies {10,11}, symbolic owners; up to two services on them with
/// service uuids from {0,1}, cookies {20,21}.
pub(crate) fn registry_world(max_objs: u8, max_svcs: u8) -> World {
    let mut w = new_world();
    add_conn(&mut w, 0);
    add_conn(&mut w, 1);
    let mut have = [false; 2];
    let mut i = 0u8;
    while i < 2 {
        if i < max_objs && kani::any() {
            add_object(&mut w, i, 10 + i, any_below(2));
            have[i as usize] = true;
        }
        i += 1;
    }
    let mut used: Option<(u8, u8)> = None;
    let mut j = 0u8;
    while j < 2 {
        if j < max_svcs && kani::any() {
            let o = any_below(2);
            kani::assume(have[o as usize]);
            let su = any_below(2);
            // (object, service uuid) pairs are unique
            if let Some(p) = used {
                kani::assume(p != (o, su));
            }
            used = Some((o, su));
            add_service(&mut w, o, 10 + o, su, 20 + j, any_info());
        }
        j += 1;
    }
    // the cookie the RNG will return next: anything that is not in use
    let f: u8 = kani::any();
    kani::assume(f != 10 && f != 11 && f != 20 && f != 21);
    set_fresh(f);
    w
}

pub(crate) fn obj_live(w: &World, u: u8) -> bool {
    w.b.objs.contains_key(&obj_uuid(u))
}

pub(crate) fn obj_owner(w: &World, u: u8) -> Option<u8> {
    w.b.objs.get(&obj_uuid(u)).map(|o| o.conn_id().0)
}

pub(crate) fn svc_live(w: &World, k: u8) -> bool {
    w.b.svc_uuids.contains_key(&svc_cookie(k))
}

/// the single logged message, if exactly one was sent to `to`
pub(crate) fn only_msg_to(to: u8) -> Option<&'static Message> {
    let mut found = None;
    let mut n = 0;
    let mut i = 0;
    while i < LOG_CAP {
        if i < log_len() && log(i).to == to {
            found = Some(&log(i).msg);
            n += 1;
        }
        i += 1;
    }
    if n == 1 {
        found
    } else {
        None
    }
}

// =================================================================================================
// C03: registry lemmas
// =================================================================================================
#[cfg(any(verif_unit = "all", verif_unit = "reg_object", verif_unit = "reg_object_t"))]
mod reg_object {
    use super::*;

    #[kani::proof]
    #[kani::unwind(18)]
    #[kani::stub(aldrin_core::ObjectCookie::new_v4, fresh_obj_cookie)]
    fn q_c03_c11_create_object() {
        let mut w = registry_world(2, 1);
        assert!(inv_reg(&w.b));
        let who = any_below(3); // 2 = a connection the broker does not know
        let u = any_below(2);
        let serial: u32 = kani::any();
        let live0 = obj_live(&w, u);
        let owner0 = obj_owner(&w, u);
        let n_objs0 = w.b.objs.len();
        let r = w.b.create_object(&mut w.st, &conn(who), CreateObject { serial, uuid: obj_uuid(u) });
        if who == 2 {
            assert!(r.is_ok() && log_len() == 0 && w.b.objs.len() == n_objs0, "unknown sender: ignored");
        } else if send_fails(who) {
            assert!(r.is_err() && log_len() == 0, "the requester is gone: close it");
            // nothing may stay behind that the teardown of `who` would not remove
            assert!(inv_reg(&w.b), "registry stays consistent when the reply cannot be delivered");
            assert!(obj_live(&w, u) == live0 && obj_owner(&w, u) == owner0);
        } else {
            assert!(r.is_ok() && log_len() == 1 && log(0).to == who, "exactly one reply, to the requester");
            match &log(0).msg {
                Message::CreateObjectReply(rep) => {
                    assert!(rep.serial == serial);
                    match rep.result {
                        CreateObjectResult::Ok(c) => {
                            assert!(!live0, "ok exactly when no live object has this uuid");
                            assert!(c == obj_cookie(fresh()), "cookie comes from the RNG (fresh by assumption)");
                            assert!(obj_owner(&w, u) == Some(who) && w.b.objs.len() == n_objs0 + 1);
                            let q = stv::create_object(&w.st);
                            assert!(q.len() == 1 && q[0] == ObjectId::new(obj_uuid(u), c), "one creation event queued");
                        }
                        CreateObjectResult::DuplicateObject => {
                            assert!(live0 && obj_owner(&w, u) == owner0 && w.b.objs.len() == n_objs0);
                            assert!(stv::create_object(&w.st).is_empty());
                        }
                    }
                }
                _ => panic!("wrong reply kind"),
            }
            assert!(inv_reg(&w.b));
        }
        kani::cover!(who < 2 && !send_fails(who) && live0);
        kani::cover!(who < 2 && !send_fails(who) && !live0);
        kani::cover!(who < 2 && send_fails(who) && !live0);
        std::mem::forget(w);
    }

    #[kani::proof]
    #[kani::unwind(18)]
    fn q_c03_c11_destroy_object() {
        let mut w = registry_world(2, 2);
        let who = any_below(3);
        let c: u8 = kani::any();
        kani::assume(c == 10 || c == 11 || c == 12);
        let serial: u32 = kani::any();
        let u = c - 10;
        let live0 = c < 12 && obj_live(&w, u);
        let owner0 = if live0 { obj_owner(&w, u) } else { None };
        let other = 1 - (u & 1);
        let other_live0 = obj_live(&w, other);
        let svc20_on_u = w.b.svc_uuids.get(&svc_cookie(20)).map(|(oid, _, _)| oid.uuid == obj_uuid(u)).unwrap_or(false);
        let svc21_on_u = w.b.svc_uuids.get(&svc_cookie(21)).map(|(oid, _, _)| oid.uuid == obj_uuid(u)).unwrap_or(false);
        let svc20_live0 = svc_live(&w, 20);
        let svc21_live0 = svc_live(&w, 21);
        let r = w.b.destroy_object(&mut w.st, &conn(who), DestroyObject { serial, cookie: obj_cookie(c) });
        if who == 2 {
            assert!(r.is_ok() && log_len() == 0);
        } else if send_fails(who) {
            assert!(r.is_err() && log_len() == 0);
            assert!(inv_reg(&w.b));
            assert!((c < 12 && obj_live(&w, u)) == live0, "nothing destroyed when the reply cannot be delivered");
        } else {
            assert!(r.is_ok() && log_len() == 1 && log(0).to == who);
            let Message::DestroyObjectReply(rep) = &log(0).msg else { panic!("wrong reply kind") };
            assert!(rep.serial == serial);
            match rep.result {
                DestroyObjectResult::Ok => {
                    assert!(live0 && owner0 == Some(who), "only the owner can destroy a live object");
                    assert!(!obj_live(&w, u), "object gone");
                    assert!(!(svc20_on_u && svc_live(&w, 20)) && !(svc21_on_u && svc_live(&w, 21)), "all its services are gone");
                    let q = stv::destroy_object(&w.st);
                    assert!(q.len() == 1 && q[0] == ObjectId::new(obj_uuid(u), obj_cookie(c)));
                    let nsvc = (svc20_on_u as usize) + (svc21_on_u as usize);
                    assert!(stv::destroy_service(&w.st).len() == nsvc, "one destruction event per service");
                }
                DestroyObjectResult::InvalidObject => assert!(!live0 && c >= 10),
                DestroyObjectResult::ForeignObject => {
                    assert!(live0 && owner0 != Some(who));
                    assert!(obj_live(&w, u));
                }
            }
            // services of other objects are untouched
            assert!(svc20_on_u || svc_live(&w, 20) == svc20_live0);
            assert!(svc21_on_u || svc_live(&w, 21) == svc21_live0);
            assert!(obj_live(&w, other) == other_live0 || other == u);
            assert!(inv_reg(&w.b));
        }
        kani::cover!(who < 2 && !send_fails(who) && live0 && owner0 == Some(who) && svc20_on_u && svc21_on_u);
        kani::cover!(who < 2 && !send_fails(who) && live0 && owner0 != Some(who));
        kani::cover!(who < 2 && !send_fails(who) && !live0);
        std::mem::forget(w);
    }
}
