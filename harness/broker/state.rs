//! Accessors for the deferred work queues of `State` (fields private to broker/state.rs).
#![allow(dead_code, unused_imports, missing_debug_implementations, missing_docs, unreachable_pub, unnameable_types)]
use super::State;
use crate::conn_id::ConnectionId;
use aldrin_core::message::CallFunctionResult;
use aldrin_core::{ObjectId, ServiceCookie, ServiceId};

pub(crate) fn remove_conns(s: &State) -> &Vec<(ConnectionId, bool)> {
    &s.remove_conns
}
pub(crate) fn remove_function_calls(s: &State) -> &Vec<(u32, ConnectionId, CallFunctionResult)> {
    &s.remove_function_calls
}
pub(crate) fn services_destroyed(s: &State) -> &Vec<(ConnectionId, ServiceCookie)> {
    &s.services_destroyed
}
pub(crate) fn unsubscribe_event(s: &State) -> &Vec<(ConnectionId, ServiceCookie, u32)> {
    &s.unsubscribe_event
}
pub(crate) fn unsubscribe_all_events(s: &State) -> &Vec<(ConnectionId, ServiceCookie)> {
    &s.unsubscribe_all_events
}
pub(crate) fn create_object(s: &State) -> &Vec<ObjectId> {
    &s.create_object
}
pub(crate) fn destroy_object(s: &State) -> &Vec<ObjectId> {
    &s.destroy_object
}
pub(crate) fn create_service(s: &State) -> &Vec<ServiceId> {
    &s.create_service
}
pub(crate) fn destroy_service(s: &State) -> &Vec<ServiceId> {
    &s.destroy_service
}
pub(crate) fn abort_function_calls(s: &State) -> &Vec<(u32, ConnectionId)> {
    &s.abort_function_calls
}
