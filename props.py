"""Registry of the claimed properties: which crate(s) carry their harnesses, the harness-name
filters per tier, budgets, and the static part of the evidence (functions encoded, bounds, stubs).

Harness naming: q_<ids>_<name> runs in the quick and the thorough tier, t_<ids>_<name> only in the
thorough tier; <ids> is one or more property tags (c01, c12_c13, ...). Kani's --harness is a
substring filter, so "_c01_" selects every harness of C01 and "q_c01_" the quick ones. A harness
shared by two properties carries both tags (e.g. q_c12_c13_epoch)."""

TRUSTED_BASE = [
    "rustc (Kani's pinned nightly) MIR generation",
    "Kani 0.68.0 MIR -> goto-program translation and its models of std/alloc intrinsics",
    "CBMC 6.11.0 symbolic execution, unwinding assertions, bit-precise encoding",
    "CaDiCaL SAT solver",
]


def tags(tag):
    """quick: q_*_<tag>_ style names may contain several tags, so match on '_<tag>_' after 'q_'."""
    return {"quick": [f"q_{tag}_"], "thorough": [f"_{tag}_"]}


CORE = "aldrin-core"
BROKER = "aldrin-broker"

ASSUME_KANI = [
    "dev-profile semantics (overflow checks and debug assertions on), as Kani models them",
    "memory allocation never fails (Kani default, --no-malloc-may-fail)",
]

PROPS = {
    "C05": dict(
        units={"quick": [(BROKER, "channel"), (BROKER, "chan_handlers")], "thorough": [(BROKER, "channel_t"), (BROKER, "chan_handlers")]},
        level="proof",
        timeout={"quick": 600, "thorough": 1500},
        jobs={"quick": 12, "thorough": 8},
        mem_gb=14,
        min_harnesses={"quick": 7, "thorough": 8},
        functions=[
            "aldrin_broker::broker::channel::Channel::{with_claimed_sender,with_claimed_receiver,check_close,close,claim_sender,claim_receiver,send_item,add_capacity}",
        ],
        bounds="one operation from an arbitrary Channel state satisfying the representation invariant (inductive step; "
               "capacities full-width u32, owners among 3 connection ids, all end-state combinations)",
        outside="histories longer than one step follow by induction on paper; client-side Sender/Receiver mirrors; schedules",
        stubs=["model ConnectionId(u8) instead of Arc<ConnectionIdInner> (harness/broker/conn_id_model.rs)"],
        assumptions=ASSUME_KANI + [
            "Channel representation invariant (harness/broker/channel.rs inv) is the induction hypothesis; it is proved inductive by the same harnesses",
            "ConnectionId is modelled as a plain integer token (identity + Clone/Eq only)",
        ],
        explanation="",
        level_text="Solver proof (CBMC, unwinding assertions on) that every operation of the real Channel state machine preserves its "
                   "representation invariant and has exactly the specified effect on credits/owners, from every state satisfying the "
                   "invariant and for all u32 capacities. One inductive step = all histories of the Channel object; broker handler lemmas "
                   "around it are added in later revisions.",
        level_note="Proof within bounds: one step, 3 connection ids, model ConnectionId. Trusted: rustc/Kani/CBMC/CaDiCaL, the invariant "
                   "as induction hypothesis (proved inductive by the same run), paper induction from one step to histories. Not covered: "
                   "ordering across several items (FIFO of the send log/transport), client-side Sender/Receiver, schedules.",
        design_ref="DESIGN.md section 3 (C05)",
    ),
    "C09": dict(
        units={"quick": [(BROKER, "conn_id")], "thorough": [(BROKER, "conn_id_t")]},
        level="proof",
        timeout={"quick": 600, "thorough": 1500},
        jobs={"quick": 12, "thorough": 8},
        mem_gb=14,
        min_harnesses={"quick": 5, "thorough": 7},
        functions=["aldrin_broker::conn_id::Inner::{acquire,release}"],
        bounds="arbitrary Inner state with next: any usize and <= 3 free ids (distinct, < next); one acquire or release",
        outside="free lists longer than 3; everything about connection teardown that is not listed under functions_encoded",
        stubs=[],
        assumptions=ASSUME_KANI,
        explanation="",
        level_text="Solver proof that connection-id recycling (real conn_id::Inner) never hands out an id that is still in use and that "
                   "release affects only the released id, from arbitrary free-list states; reduced scope (see level_note).",
        level_note="Only the id allocator is covered so far; shutdown_connection lemmas are added in later revisions. Bound: <= 3 free ids. "
                   "Trusted: rustc/Kani/CBMC/CaDiCaL. Outside: the four ways a connection ends, conn.rs end-of-life protocol, statistics counters.",
        design_ref="DESIGN.md section 3 (C09)",
    ),
    "C12": dict(
        units={"quick": [(BROKER, "acceptor"), (BROKER, "gates@2")], "thorough": [(BROKER, "acceptor_t"), (BROKER, "gates@2")]},
        level="proof",
        timeout={"quick": 600, "thorough": 1500},
        jobs={"quick": 12, "thorough": 8},
        mem_gb=14,
        min_harnesses={"quick": 1, "thorough": 2},
        functions=["aldrin_broker::acceptor::select_protocol_version"],
        bounds="all (major, minor, connect2) in u32 x u32 x bool",
        outside="the async handshake in Acceptor/ClientBuilder, the client side of the negotiation",
        stubs=[],
        assumptions=ASSUME_KANI,
        explanation="",
        level_text="Solver proof over all (major, minor, connect2) that the broker's version selection accepts exactly 1.14 via the legacy "
                   "connect and 1.x (x >= 14) via connect2 and negotiates min(client, 1.20).",
        level_note="Full-width proof of the pure selection function. Trusted: rustc/Kani/CBMC/CaDiCaL. Outside: the async handshake "
                   "(Acceptor::accept, ClientBuilder), gates/down-translation lemmas are added in later revisions.",
        design_ref="DESIGN.md section 3 (C12)",
    ),
    "C01": dict(
        units={"quick": [(CORE, "buf_ext"), (CORE, "leaf_rt"), (CORE, "shapes_basic")],
               "thorough": [(CORE, "buf_ext"), (CORE, "leaf_rt"), (CORE, "leaf_rt_t"), (CORE, "shapes_basic")]},
        level="proof",
        timeout={"quick": 900, "thorough": 1800},
        jobs={"quick": 14, "thorough": 14},
        par_units=4,
        mem_gb=14,
        min_harnesses={"quick": 20, "thorough": 22},
        functions=[],
        bounds="",
        outside="",
        stubs=[],
        assumptions=ASSUME_KANI,
        explanation="",
        level_text="tbd",
        level_note="tbd",
    ),
    "C07": dict(
        units={"quick": [(CORE, "leaf_total"), (CORE, "shapes_basic"), (CORE, "shapes_keys"), (CORE, "shapes_struct")],
               "thorough": [(CORE, "buf_ext"), (CORE, "leaf_total"), (CORE, "leaf_total_t"), (CORE, "shapes_basic"), (CORE, "shapes_keys"), (CORE, "shapes_struct")]},
        level="proof",
        timeout={"quick": 1500, "thorough": 2400},
        jobs={"quick": 14, "thorough": 14},
        par_units=4,
        mem_gb=14,
        min_harnesses={"quick": 30, "thorough": 35},
        functions=[],
        bounds="",
        outside="",
        stubs=[],
        assumptions=ASSUME_KANI,
        explanation="",
        level_text="tbd",
        level_note="tbd",
    ),
    "C13": dict(
        units={"quick": [(CORE, "convert_epoch"), (CORE, "convert_leaf"), (CORE, "convert_shapes"), (CORE, "convert_keys")],
               "thorough": [(CORE, "convert_epoch"), (CORE, "convert_leaf"), (CORE, "convert_shapes"), (CORE, "convert_keys_t")]},
        level="proof",
        timeout={"quick": 900, "thorough": 2400},
        jobs={"quick": 14, "thorough": 14},
        par_units=4,
        mem_gb=14,
        min_harnesses={"quick": 20, "thorough": 25},
        functions=[],
        bounds="",
        outside="",
        stubs=[],
        assumptions=ASSUME_KANI,
        explanation="",
        level_text="tbd",
        level_note="tbd",
    ),
    "C02": dict(
        units={"quick": [(BROKER, "serial_map"), (BROKER, "conn_state"), (BROKER, "calls@2")], "thorough": [(BROKER, "serial_map"), (BROKER, "conn_state"), (BROKER, "calls@2")]},
        level="other",
        timeout={"quick": 1200, "thorough": 2400},
        jobs={"quick": 14, "thorough": 14},
        par_units=4,
        mem_gb=14,
        min_harnesses={"quick": 2, "thorough": 2},
        functions=[],
        bounds="",
        outside="",
        stubs=[],
        assumptions=ASSUME_KANI,
        explanation="tbd",
        level_text="tbd",
        level_note="tbd",
    ),
    "C03": dict(
        units={"quick": [(BROKER, "reg_object@2"), (BROKER, "reg_service@2")], "thorough": [(BROKER, "reg_object@2"), (BROKER, "reg_service@2")]},
        level="other",
        timeout={"quick": 1200, "thorough": 2400},
        jobs={"quick": 14, "thorough": 14},
        par_units=4,
        mem_gb=14,
        min_harnesses={"quick": 2, "thorough": 2},
        functions=[],
        bounds="",
        outside="",
        stubs=[],
        assumptions=ASSUME_KANI,
        explanation="tbd",
        level_text="tbd",
        level_note="tbd",
    ),
    "C04": dict(
        units={"quick": [(BROKER, "service"), (BROKER, "conn_state"), (BROKER, "events")], "thorough": [(BROKER, "service"), (BROKER, "conn_state"), (BROKER, "events")]},
        level="other",
        timeout={"quick": 1200, "thorough": 2400},
        jobs={"quick": 14, "thorough": 14},
        par_units=4,
        mem_gb=14,
        min_harnesses={"quick": 5, "thorough": 5},
        functions=[],
        bounds="",
        outside="",
        stubs=[],
        assumptions=ASSUME_KANI,
        explanation="tbd",
        level_text="tbd",
        level_note="tbd",
    ),
    "C10": dict(
        units={"quick": [(BROKER, "bus_listener")], "thorough": [(BROKER, "bus_listener")]},
        level="other",
        timeout={"quick": 1200, "thorough": 2400},
        jobs={"quick": 14, "thorough": 14},
        par_units=4,
        mem_gb=14,
        min_harnesses={"quick": 4, "thorough": 4},
        functions=[],
        bounds="",
        outside="",
        stubs=[],
        assumptions=ASSUME_KANI,
        explanation="tbd",
        level_text="tbd",
        level_note="tbd",
    ),
}
