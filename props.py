"""Registry of the claimed properties: which crate(s) carry their harnesses, the harness-name
filters per tier, budgets, and the static part of the evidence (functions encoded, bounds, stubs).

Harness naming: q_<ids>_<name> runs in the quick and the thorough tier, t_<ids>_<name> only in the
thorough tier; <ids> is one or more property tags (c01, c12_c13, ...). Kani's --harness is a
substring filter, so "_c01_" selects every harness of C01 and "q_c01_" the quick ones. A harness
shared by two properties carries both tags (e.g. q_c12_c13_epoch)."""

TRUSTED_BASE = [
    "rustc (Kani's pinned nightly) MIR generation",
    "Kani 0.68.0 MIR -> goto-program translation and its models of std/alloc intrinsics",
    "CBMC 6.11.0 symbolic execution, unwinding assertions, bit-precise encoding",
    "CaDiCaL SAT solver",
]


def tags(tag):
    """quick: q_*_<tag>_ style names may contain several tags, so match on '_<tag>_' after 'q_'."""
    return {"quick": [f"q_{tag}_"], "thorough": [f"_{tag}_"]}


CORE = "aldrin-core"
BROKER = "aldrin-broker"

ASSUME_KANI = [
    "dev-profile semantics (overflow checks and debug assertions on), as Kani models them",
    "memory allocation never fails (Kani default, --no-malloc-may-fail)",
]

PROPS = {
    "C05": dict(
        units={"quick": [(BROKER, "channel"), (BROKER, "chan_handlers")], "thorough": [(BROKER, "channel_t"), (BROKER, "chan_handlers")]},
        level="proof",
        timeout={"quick": 1500, "thorough": 2400},
        jobs={"quick": 6, "thorough": 6},
        par_units=2,
        mem_gb=14,
        min_harnesses={"quick": 7, "thorough": 8},
        functions=[
            "aldrin_broker::broker::channel::Channel::{with_claimed_sender,with_claimed_receiver,check_close,close,claim_sender,claim_receiver,send_item,add_capacity}",
        ],
        bounds="one operation from an arbitrary Channel state satisfying the representation invariant (inductive step; "
               "capacities full-width u32, owners among 3 connection ids, all end-state combinations)",
        outside="histories longer than one step follow by induction on paper; client-side Sender/Receiver mirrors; schedules",
        stubs=["model ConnectionId(u8) instead of Arc<ConnectionIdInner> (harness/broker/conn_id_model.rs)"],
        assumptions=ASSUME_KANI + [
            "Channel representation invariant (harness/broker/channel.rs inv) is the induction hypothesis; it is proved inductive by the same harnesses",
            "ConnectionId is modelled as a plain integer token (identity + Clone/Eq only)",
        ],
        explanation="",
        level_text="Solver proof (CBMC, unwinding assertions on) that every operation of the real Channel state machine preserves its "
                   "representation invariant and has exactly the specified effect on credits/owners, from every state satisfying the "
                   "invariant and for all u32 capacities. One inductive step = all histories of the Channel object; broker handler lemmas "
                   "around it are added in later revisions.",
        level_note="Proof within bounds: one step, 3 connection ids, model ConnectionId. Trusted: rustc/Kani/CBMC/CaDiCaL, the invariant "
                   "as induction hypothesis (proved inductive by the same run), paper induction from one step to histories. Not covered: "
                   "ordering across several items (FIFO of the send log/transport), client-side Sender/Receiver, schedules.",
        design_ref="DESIGN.md section 3 (C05)",
    ),
    "C09": dict(
        units={"quick": [(BROKER, "conn_id"), (BROKER, "shutdown@2")], "thorough": [(BROKER, "conn_id_t"), (BROKER, "shutdown@2")]},
        level="proof",
        timeout={"quick": 600, "thorough": 1500},
        jobs={"quick": 12, "thorough": 8},
        mem_gb=14,
        min_harnesses={"quick": 8, "thorough": 11},
        functions=["aldrin_broker::conn_id::Inner::{acquire,release}"],
        bounds="arbitrary Inner state with next: any usize and <= 3 free ids (distinct, < next); one acquire or release",
        outside="free lists longer than 3; everything about connection teardown that is not listed under functions_encoded",
        stubs=[],
        assumptions=ASSUME_KANI,
        explanation="",
        level_text="Solver proof that connection-id recycling (real conn_id::Inner) never hands out an id that is still in use and that "
                   "release affects only the released id, from arbitrary free-list states; reduced scope (see level_note).",
        level_note="Only the id allocator is covered so far; shutdown_connection lemmas are added in later revisions. Bound: <= 3 free ids. "
                   "Trusted: rustc/Kani/CBMC/CaDiCaL. Outside: the four ways a connection ends, conn.rs end-of-life protocol, statistics counters.",
        design_ref="DESIGN.md section 3 (C09)",
    ),
    "C12": dict(
        units={"quick": [(BROKER, "acceptor"), (BROKER, "gates@2")], "thorough": [(BROKER, "acceptor_t"), (BROKER, "gates@2")]},
        level="proof",
        timeout={"quick": 600, "thorough": 1500},
        jobs={"quick": 12, "thorough": 8},
        mem_gb=14,
        min_harnesses={"quick": 1, "thorough": 2},
        functions=["aldrin_broker::acceptor::select_protocol_version"],
        bounds="all (major, minor, connect2) in u32 x u32 x bool",
        outside="the async handshake in Acceptor/ClientBuilder, the client side of the negotiation",
        stubs=[],
        assumptions=ASSUME_KANI,
        explanation="",
        level_text="Solver proof over all (major, minor, connect2) that the broker's version selection accepts exactly 1.14 via the legacy "
                   "connect and 1.x (x >= 14) via connect2 and negotiates min(client, 1.20).",
        level_note="Full-width proof of the pure selection function. Trusted: rustc/Kani/CBMC/CaDiCaL. Outside: the async handshake "
                   "(Acceptor::accept, ClientBuilder), gates/down-translation lemmas are added in later revisions.",
        design_ref="DESIGN.md section 3 (C12)",
    ),
    "C01": dict(
        units={"quick": [(CORE, "buf_ext"), (CORE, "leaf_rt"), (CORE, "shapes_basic"), (CORE, "shapes_keys"), (CORE, "shapes_struct")],
               "thorough": [(CORE, "buf_ext"), (CORE, "leaf_rt"), (CORE, "leaf_rt_t"), (CORE, "shapes_basic"), (CORE, "shapes_keys"), (CORE, "shapes_struct")]},
        level="proof",
        timeout={"quick": 900, "thorough": 1800},
        jobs={"quick": 14, "thorough": 14},
        par_units=4,
        mem_gb=14,
        min_harnesses={"quick": 20, "thorough": 22},
        functions=['aldrin_core::buf_ext::{BufMutExt::put_varint_*,ValueBufExt::try_get_varint_*,try_skip_varint_le,zigzag_*}', 'aldrin_core::SerializedValue::serialize / Serializer::{serialize_*} for every scalar kind, string, Some, Enum, Vec1/2, Bytes1/2, Map1/2, Set1/2 (all ten key tags), Struct1/2', 'aldrin_core::Deserializer::{new,skip,len,split_off_serialized_value,deserialize_*}, impl Deserialize<tags::Value> for Value (leaf kinds, Some, Enum, Vec1, Bytes1/2, empty Vec2/struct), Vec2/Map2/Set2/Struct2Deserializer as units, KeyTagImpl::{serialize_key,deserialize_key,skip}', 'aldrin_core::SerializedValueSlice::{deserialize_as,kind} (trailing data)'],
        bounds='scalars: full width (all 2^64 values, every NaN payload); strings <= 3 bytes; containers: <= 2 elements with u8 leaves, one level of container-in-container; ids/keys: one-byte varint form as literals {3,7,250,251,253}, full-width form symbolic; start depths 0, 32-levels, 33-levels (concrete)',
        outside='Some/Enum/non-empty Vec/map/set/struct arms of `impl Serialize for &Value` and the Vec2/map/set/populated-struct arms of `Value::deserialize` (heap discriminants / std HashMap, DESIGN 8.1); keyed V2 containers and Vec2-in-Vec2 through the dispatcher (unit-driven instead); > 2 elements; arbitrary depths between the boundaries; composition over nesting levels (paper induction)',
        stubs=[],
        assumptions=ASSUME_KANI,
        explanation="",
        level_text='Solver proofs (CBMC, unwinding assertions on) that the real serializer and the real deserializer of aldrin-core agree with an independent byte-level reference encoding built in the harness, for all payload values of every scalar kind and for every container kind in both epochs on small shapes, that decoding consumes exactly the encoding, and that serializer and deserializer enforce the nesting limit at exactly 32 on each shape. Proof level within the stated bounds, modular over nesting.',
        level_note='Bounded: shapes with literal framing and symbolic payload (DESIGN 8.1), <= 2 elements, concrete boundary depths. Trusted: rustc MIR opt level 3, Kani, CBMC, CaDiCaL, RandomState stub (fixed keys; the map stays empty), the reference encodings written in the harness. Not covered: see outside_bounds in the evidence; notably value.rs container arms of `impl Serialize for &Value`.',
    ),
    "C07": dict(
        units={"quick": [(CORE, "leaf_total"), (CORE, "shapes_basic"), (CORE, "shapes_keys"), (CORE, "shapes_struct")],
               "thorough": [(CORE, "buf_ext"), (CORE, "leaf_total"), (CORE, "leaf_total_t"), (CORE, "shapes_basic"), (CORE, "shapes_keys"), (CORE, "shapes_struct")]},
        level="proof",
        timeout={"quick": 1500, "thorough": 2400},
        jobs={"quick": 14, "thorough": 14},
        par_units=4,
        mem_gb=14,
        min_harnesses={"quick": 30, "thorough": 35},
        functions=['aldrin_core::Deserializer::{skip,len,split_off_serialized_value,peek_value_kind}', 'impl Deserialize<tags::Value> for Value (leaf kinds and V1 containers)', 'ValueKind::try_from(u8)', 'KeyTagImpl::skip for all ten key tags', 'Vec1/Map1/Set1/Struct1/Bytes1/Bytes2/Enum deserializers through the dispatcher; Vec2/Map2/Set2/Struct2Deserializer::{skip,deserialize*} as units'],
        bounds='leaf kinds: arbitrary payload bytes, the listed truncation lengths of each kind; containers: the C01 shapes and every proper prefix of them; all 256 kind bytes for the kind conversion, literal invalid kinds {66,128,255} through the entry points',
        outside='arbitrary byte strings beyond the shapes (a symbolic kind byte at a symbolic position is intractable, DESIGN 1); UnknownFields/UnknownVariant capture; allocation bounds; keyed V2 containers through the dispatcher',
        stubs=[],
        assumptions=ASSUME_KANI,
        explanation="",
        level_text="Solver proofs that on every leaf kind (all payload bytes, listed truncations) and on the container shapes skip, len, split_off and full decoding accept the same inputs and consume the same number of bytes (UTF-8 validation aside), that every proper prefix of a well-formed encoding is rejected without panic, and that invalid kind bytes are reported as InvalidSerialization. Kani's panic/bounds/overflow checks give totality on the explored inputs.",
        level_note='Bounded by the shapes (literal framing, symbolic payload). Trusted: rustc MIR opt level 3, Kani, CBMC, CaDiCaL, the 40-line reference length function in the harness. A genuine defect found by this check (KeyTagImpl::skip, N = 0) is fixed in /repo commit 7505504 and listed in known_findings.json.',
    ),
    "C13": dict(
        units={"quick": [(CORE, "convert_epoch"), (CORE, "convert_leaf"), (CORE, "convert_shapes"), (CORE, "convert_keys")],
               "thorough": [(CORE, "convert_epoch"), (CORE, "convert_leaf"), (CORE, "convert_shapes"), (CORE, "convert_keys_t")]},
        level="proof",
        timeout={"quick": 900, "thorough": 2400},
        jobs={"quick": 14, "thorough": 14},
        par_units=4,
        mem_gb=14,
        min_harnesses={"quick": 20, "thorough": 25},
        functions=['aldrin_core::convert_value::{convert, Epoch::try_from, Convert::{new,convert,convert_* for every leaf kind, convert_bytes1, convert_bytes2_to_bytes1, convert_set1, convert_set2_to_set1, convert_vec1/vec2_to_vec1, convert_map1/map2_to_map1, convert_struct1/struct2_to_struct1, convert_some, convert_enum}}', 'KeyTagImpl::convert for all ten key tags'],
        bounds='all (major, minor) pairs for the epoch mapping and conversion direction; leaf kinds: arbitrary payload and listed truncations; containers: <= 2 elements, u8 leaves, one nested container, segmented Bytes2, keys in short (literal) and full-width (symbolic) varint form incl. non-canonical input keys; concrete boundary depths',
        outside='larger containers, arbitrary nesting compositions (paper induction), arbitrary malformed bytes beyond truncations and bad markers',
        stubs=[],
        assumptions=ASSUME_KANI,
        explanation="",
        level_text='Solver proofs that conversion to the legacy epoch yields byte-for-byte the legacy reference encoding of the same value (built in the harness from the same symbolic payload) with no 1.20 container kind left, is idempotent, returns the input borrowed for same/newer epochs, fails exactly for versions outside 1.14..1.20 / truncated input / nesting beyond 32, and never panics.',
        level_note='Bounded by the shapes. Trusted: rustc MIR opt level 3, Kani, CBMC, CaDiCaL, the reference encodings in the harness.',
    ),
    "C02": dict(
        units={"quick": [(BROKER, "serial_map"), (BROKER, "conn_state"), (BROKER, "calls@2")], "thorough": [(BROKER, "serial_map"), (BROKER, "conn_state"), (BROKER, "calls@2")]},
        level="other",
        timeout={"quick": 1500, "thorough": 2400},
        jobs={"quick": 6, "thorough": 6},
        par_units=2,
        mem_gb=14,
        min_harnesses={"quick": 2, "thorough": 2},
        functions=['aldrin_broker::serial_map::SerialMap::insert', 'aldrin_broker::broker::conn_state::ConnectionState::{add_call,remove_call,call_data}', 'aldrin_broker::broker::Broker::{call_function_reply, abort_function_call, abort_call}'],
        bounds='SerialMap: arbitrary next (incl. wrap at u32::MAX), <= 2 live entries; handler lemmas: 2 connections, 1 object, 1 service, <= 2 pending calls in the listed concrete shapes (none / one / one aborted / two / aborted + active with reused caller serial; caller = owner or not), symbolic serials, caller serials, versions, peer liveness',
        outside='histories longer than one step (paper induction over Inv_calls), call_function_impl and remove_service lemmas (not built), 3-4 connections, > 2 pending calls, dequeue orders',
        stubs=[],
        assumptions=ASSUME_KANI,
        explanation="tbd",
        level_text="One-step solver lemmas on the real handlers: a reply is delivered only when it comes from the service owner for a pending, non-aborted call - exactly once, to the caller, under the caller's serial, result and payload unchanged - and otherwise dropped without touching other calls (including a stale reply to an aborted call whose caller serial has been reused); abort yields exactly one Aborted reply and is idempotent; SerialMap never hands out a serial in use. Exactly-once over histories is an induction on paper over these lemmas.",
        level_note="Weaker than the property's quantifier: single transitions from small concrete-shape states. Trusted: model HashMap/HashSet (CAP 2), model ConnectionId, send-log digest, Kani, CBMC, CaDiCaL.",
    ),
    "C03": dict(
        units={"quick": [(BROKER, "reg_object@2"), (BROKER, "reg_service@2")], "thorough": [(BROKER, "reg_object@2"), (BROKER, "reg_service@2")]},
        level="other",
        timeout={"quick": 1500, "thorough": 2400},
        jobs={"quick": 6, "thorough": 6},
        par_units=2,
        mem_gb=14,
        min_harnesses={"quick": 2, "thorough": 2},
        functions=['aldrin_broker::broker::Broker::{create_object, destroy_object, create_service, destroy_service, query_service_version, remove_object, remove_service}'],
        bounds='2 connections (peers possibly gone), <= 1-2 objects over a pool of 2 uuids, <= 2 services, symbolic owners/serials, requester known or unknown, fresh cookie from the RNG stub',
        outside="histories (paper induction over Inv_reg), create_service2/query_service_info/subscribe/call 'succeed exactly while live' lemmas beyond query_service_version, disconnect cascade (see C09)",
        stubs=[],
        assumptions=ASSUME_KANI,
        explanation="tbd",
        level_text="One-step solver lemmas: each create/destroy request is answered exactly once with exactly the result the registry state dictates, only the owner can destroy or add services, destroying an object removes all its services, the registry cross-reference invariant is preserved, and when the reply cannot be delivered nothing is left behind that the requester's teardown would not remove.",
        level_note='Single transitions from small states. Trusted: model collections (CAP 2), model ConnectionId, send-log digest, RNG stub (fresh cookie assumed unused), Kani, CBMC, CaDiCaL.',
    ),
    "C04": dict(
        units={"quick": [(BROKER, "service"), (BROKER, "conn_state"), (BROKER, "events")], "thorough": [(BROKER, "service"), (BROKER, "conn_state"), (BROKER, "events")]},
        level="other",
        timeout={"quick": 1500, "thorough": 2400},
        jobs={"quick": 6, "thorough": 6},
        par_units=2,
        mem_gb=14,
        min_harnesses={"quick": 5, "thorough": 5},
        functions=['aldrin_broker::broker::service::Service::{subscribe_event,unsubscribe_event,subscribe_all_events,unsubscribe_all_events,subscribed_conn_ids}', 'aldrin_broker::broker::conn_state::ConnectionState::{subscribe_event,unsubscribe_event,is_subscribed_to_event,subscribe_all_events,unsubscribe_all_events,unsubscribe_all}', 'aldrin_broker::broker::Broker::{emit_event, subscribe_event, unsubscribe_event}'],
        bounds="Service: arbitrary subscriber sets over 3 connections and 2 event ids satisfying 'no empty set stored' (inductive step); handlers: 3 connections, 1 service, arbitrary mirrored subscriptions over 2 event ids",
        outside='histories (paper induction over the mirror invariant), subscribe_all/unsubscribe_all handlers, remove_*_subscription on disconnect, ServiceDestroyed fan-out, client-side bookkeeping',
        stubs=[],
        assumptions=ASSUME_KANI,
        explanation="tbd",
        level_text='Solver proofs of the inductive step on the real Service/ConnectionState bookkeeping (first/last subscriber detection is exact and no empty subscriber set stays behind, so the next subscribe counts as first) and one-step lemmas on emit_event / subscribe_event / unsubscribe_event (fan-out to exactly the subscribed connections, owner told on 0<->1 transitions only).',
        level_note='Component level: one step from an arbitrary invariant-satisfying state = histories of the component. Handler lemmas: single transitions. Trusted: model collections (CAP 3), model ConnectionId, send-log digest, Kani, CBMC, CaDiCaL.',
    ),
    "C10": dict(
        units={"quick": [(BROKER, "bus_listener"), (BROKER, "bus_events@2")], "thorough": [(BROKER, "bus_listener"), (BROKER, "bus_events@2")]},
        level="other",
        timeout={"quick": 1500, "thorough": 2400},
        jobs={"quick": 6, "thorough": 6},
        par_units=2,
        mem_gb=14,
        min_harnesses={"quick": 4, "thorough": 4},
        functions=['aldrin_core::BusListenerFilter::{matches_object,matches_service,matches_event}, BusListenerServiceFilter::matches, BusListenerScope::includes_*', 'aldrin_broker::bus_listener::BusListener::{add_filter,remove_filter,clear_filters,start,stop,matches_object,matches_service,matches_new_event,specific_objects,specific_services}'],
        bounds='all six filter shapes over pools of 2-3 uuids; listeners with <= 2 filters in arbitrary slots, arbitrary scope; one operation from an arbitrary state satisfying the flag invariant',
        outside='start_bus_listener / emit_bus_event handler lemmas (not built: out of memory at the state sizes needed), event ordering in process_loop_result, histories, client-side BusListener/Discoverer',
        stubs=[],
        assumptions=ASSUME_KANI,
        explanation="tbd",
        level_text='Solver proofs that the filter predicate equals its specification, that add/remove/clear keep the two incrementally maintained flags equal to their definition (so the fast paths stay valid for filter histories of any length), and that under this invariant the specific-object/specific-service fast paths enumerate exactly what the scan path matches, each once.',
        level_note='Component level only. Trusted: model HashSet (CAP 3), Kani, CBMC, CaDiCaL. Per-connection de-duplication in emit_bus_event is NOT covered.',
    ),
    "C11": dict(
        units={"quick": [(BROKER, "gates@2"), (BROKER, "wrongdir@2"), (BROKER, "channel")],
               "thorough": [(BROKER, "gates@2"), (BROKER, "wrongdir@2"), (BROKER, "channel_t"), (BROKER, "chan_handlers"), (BROKER, "reg_object@2"), (BROKER, "reg_service@2"), (BROKER, "calls@2"), (BROKER, "events"), (BROKER, "bus_events@2")]},
        level="other",
        timeout={"quick": 900, "thorough": 2400},
        jobs={"quick": 10, "thorough": 6},
        par_units=2,
        mem_gb=14,
        min_harnesses={"quick": 25, "thorough": 30},
        functions=["aldrin_broker::broker::Broker::handle_message (dispatch, wrong-direction arm)", "every gated handler (version gate, unknown sender)", "aldrin_broker::broker::channel::Channel (illegal-to-call arms unreachable under the broker's preconditions)", "thorough: the handler lemmas of C02-C05, C10 with arbitrary (stale, foreign, unknown) cookies and serials"],
        bounds="one message from one connection on a small state: every field of the message symbolic (cookies from live and never-issued pools, serials arbitrary), sender known or unknown, any negotiated version",
        outside="sequences of abusive messages (paper induction over the same invariants), Message::Shutdown (connection task), garbage payload bytes, interleaved connects/disconnects, the introspection database, conn.rs",
        stubs=[],
        assumptions=ASSUME_KANI,
        explanation="One-step lemmas: Kani's panic/overflow/bounds checks show that no expect(\"inconsistent state\"), unreachable!(), unwrap() or debug_assert! site of the exercised handlers is reachable from the small invariant-satisfying states, and the result is Ok (answered or ignored) or Err (close this connection) with the stated effect on the state.",
        level_text="One-step solver lemmas: messages that only the broker may send close the sending connection and change nothing; every gated handler ignores unknown senders and refuses too-new messages without side effects; the channel state machine's unreachable!() arms cannot be reached under the preconditions the broker establishes; in the thorough tier every handler lemma of C02-C05/C10 is run with arbitrary stale/foreign ids. 'Does not panic' = Kani's checks on all explored paths.",
        level_note="Single transitions from small states; sequences are an induction on paper. Trusted: model collections, model ConnectionId, send-log digest, Kani, CBMC, CaDiCaL. Not covered: conn.rs (e.g. a payload conversion failure terminating the receiving connection), the introspection feature.",
    ),
}
