// Counterexample for property C09, harness broker::verif::stats::q_c09_gauges_create_channel_sender_reply_undeliverable
// failed checks: ['"the gauges equal the number of live entities right after the request"']
// produced by: RUSTFLAGS='--cfg verif_unit="stats" -Zmir-opt-level=3 -Zmir-enable-passes=-GVN --cfg verif_cap="2" --cfg verif_quick' cargo kani -p aldrin-broker --target-dir '/verif/.cache/aldrin-broker/stats@2^statistics.q' -Z unstable-options -Z stubbing --harness-timeout 2400 -j 1 --no-assertion-reach-checks --output-format terse --export-json '/verif/.cache/out/replay-C09-aldrin-broker-stats@2^statistics.json' --features statistics -Z concrete-playback --concrete-playback=print --exact --harness broker::verif::stats::q_c09_gauges_create_channel_sender_reply_undeliverable
// replay: ./check C09 --replay replay/C09-q_c09_gauges_create_channel_sender_reply_undeliverable.rs
// harness: broker::verif::stats::q_c09_gauges_create_channel_sender_reply_undeliverable
// crate: aldrin-broker
// unit: stats@2^statistics
#[test]
fn kani_concrete_playback_q_c09_gauges_create_channel_sender_reply_undeliverable_6822197839238351352() {
    let concrete_vals: Vec<Vec<u8>> = vec![
        // 16
        vec![16, 0, 0, 0],
        // 0
        vec![0],
        // 16
        vec![16, 0, 0, 0],
        // 0
        vec![0],
        // 0
        vec![0, 0, 0, 0],
        // 0
        vec![0, 0, 0, 0],
        // 0
        vec![0, 0, 0, 0],
    ];
    kani::concrete_playback_run(concrete_vals, q_c09_gauges_create_channel_sender_reply_undeliverable);
}
