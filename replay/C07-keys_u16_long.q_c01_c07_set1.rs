// Counterexample for property C07, harness verif::shapes_keys::keys_u16_long::q_c01_c07_set1
// failed checks: ['"skip accepts the well-formed encoding and consumes all of it"']
// produced by: RUSTFLAGS='--cfg verif_unit="shapes_keys" -Zmir-opt-level=3' cargo kani -p aldrin-core --target-dir /verif/.cache/aldrin-core/shapes_keys -Z unstable-options -Z stubbing --harness-timeout 2400 -j 1 --output-format terse --export-json /verif/.cache/out/replay-C07-aldrin-core-shapes_keys.json -Z concrete-playback --concrete-playback=print --exact --harness verif::shapes_keys::keys_u16_long::q_c01_c07_set1
// replay: ./check C07 --replay replay/C07-keys_u16_long.q_c01_c07_set1.rs
// harness: verif::shapes_keys::keys_u16_long::q_c01_c07_set1
// crate: aldrin-core
// unit: shapes_keys
#[test]
fn kani_concrete_playback_q_c01_c07_set1_14892214950649877218() {
    let concrete_vals: Vec<Vec<u8>> = vec![
        // 0
        vec![0],
        // 128
        vec![128],
        // 0
        vec![0],
        // 0
        vec![0],
        // 0
        vec![0],
        // 0
        vec![0],
        // 0
        vec![0],
        // 0
        vec![0],
        // 0
        vec![0],
        // 0
        vec![0],
        // 0
        vec![0],
        // 0
        vec![0],
        // 0
        vec![0],
        // 0
        vec![0],
        // 0
        vec![0],
        // 0
        vec![0],
        // 0
        vec![0],
    ];
    kani::concrete_playback_run(concrete_vals, q_c01_c07_set1);
}
