// Counterexample for property C04, harness broker::service::verif::harnesses::q_c04_service_unsubscribe_event
// failed checks: ['unreachable code', '"owner is told to stop exactly on the 1 -> 0 transition"', 'assertion failed: !is_sub(&s, e, t)', 'attempt to subtract with overflow', 'assertion failed: subscribers(&s, e) == if was_sub { n0 - 1 } else { n0 }', 'assertion failed: is_sub(&s, other_e, other_t) == other0', '"no empty subscriber set stays behind (the next subscribe must count as first)"', 'assertion failed: again == (n1 == 0)', 'unreachable code']
// produced by: RUSTFLAGS='--cfg verif_unit="service"' cargo kani -p aldrin-broker --target-dir /verif/.cache/aldrin-broker/service -Z unstable-options -Z stubbing --harness-timeout 2400 -j 1 --output-format terse --export-json /verif/.cache/out/replay-C04-aldrin-broker-service.json -Z concrete-playback --concrete-playback=inplace --exact --harness broker::service::verif::harnesses::q_c04_service_unsubscribe_event
// replay: ./check C04 --replay replay/C04-q_c04_service_unsubscribe_event.rs
// (the test below is inserted after the harness in /verif/harness/broker/service.rs and run with
//  `cargo kani playback -Z concrete-playback -p aldrin-broker -- <test name>`)
// harness-file: /verif/harness/broker/service.rs
// crate: aldrin-broker
// unit: service
// insert-at-line: 165
#[test]
    fn kani_concrete_playback_q_c04_service_unsubscribe_event_10927976094255137602() {
        let concrete_vals: Vec<Vec<u8>> = vec![
            // 1
            vec![1],
            // 1
            vec![1],
            // 0
            vec![0],
            // 0
            vec![0],
            // 0
            vec![0],
            // 2ul
            vec![2, 0, 0, 0, 0, 0, 0, 0],
            // 0
            vec![0],
            // 0
            vec![0],
            // 1
            vec![1],
            // 1
            vec![1],
            // 1
            vec![1],
            // 0
            vec![0],
            // 0
            vec![0],
            // 0
            vec![0],
            // 1
            vec![1],
            // 2
            vec![2],
            // 1
            vec![1, 0, 0, 0],
            // 2
            vec![2],
            // 0
            vec![0, 0, 0, 0],
            // 0
            vec![0],
        ];
        kani::concrete_playback_run(concrete_vals, q_c04_service_unsubscribe_event);
    }
