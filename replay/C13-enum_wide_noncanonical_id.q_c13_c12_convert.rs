// Counterexample for property C13, harness convert_value::verif::shapes::enum_wide_noncanonical_id::q_c13_c12_convert
// failed checks: ['"converted bytes differ from the legacy encoding of the same value"']
// produced by: RUSTFLAGS='--cfg verif_unit="convert_shapes" -Zmir-opt-level=3' cargo kani -p aldrin-core --target-dir /verif/.cache/aldrin-core/convert_shapes -Z unstable-options -Z stubbing --harness-timeout 2400 -j 1 --output-format terse --export-json /verif/.cache/out/replay-C13-aldrin-core-convert_shapes.json -Z concrete-playback --concrete-playback=print --exact --harness convert_value::verif::shapes::enum_wide_noncanonical_id::q_c13_c12_convert
// replay: ./check C13 --replay replay/C13-enum_wide_noncanonical_id.q_c13_c12_convert.rs
// harness: convert_value::verif::shapes::enum_wide_noncanonical_id::q_c13_c12_convert
// crate: aldrin-core
// unit: convert_shapes
// Kani produced no concrete playback test for this failure.
