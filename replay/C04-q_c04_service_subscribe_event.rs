// Counterexample for property C04, harness broker::service::verif::harnesses::q_c04_service_subscribe_event
// failed checks: ['"owner is told to start exactly on the 0 -> 1 transition"', 'assertion failed: is_sub(&s, e, t)', 'assertion failed: subscribers(&s, e) == if was_sub { n0 } else { n0 + 1 }', '"other subscriptions untouched"', 'assertion failed: inv_no_empty_sets(&s)', 'unreachable code', 'unreachable code']
// produced by: RUSTFLAGS='--cfg verif_unit="service"' cargo kani -p aldrin-broker --target-dir /verif/.cache/aldrin-broker/service -Z unstable-options -Z stubbing --harness-timeout 2400 -j 1 --output-format terse --export-json /verif/.cache/out/replay-C04-aldrin-broker-service.json -Z concrete-playback --concrete-playback=inplace --exact --harness broker::service::verif::harnesses::q_c04_service_subscribe_event
// replay: ./check C04 --replay replay/C04-q_c04_service_subscribe_event.rs
// (the test below is inserted after the harness in /verif/harness/broker/service.rs and run with
//  `cargo kani playback -Z concrete-playback -p aldrin-broker -- <test name>`)
// harness-file: /verif/harness/broker/service.rs
// crate: aldrin-broker
// unit: service
#[test]
    fn kani_concrete_playback_q_c04_service_subscribe_event_17828956724628068473() {
        let concrete_vals: Vec<Vec<u8>> = vec![
            // 1
            vec![1],
            // 1
            vec![1],
            // 1
            vec![1],
            // 0
            vec![0],
            // 1
            vec![1],
            // 0
            vec![0],
            // 1ul
            vec![1, 0, 0, 0, 0, 0, 0, 0],
            // 1
            vec![1],
            // 0
            vec![0],
            // 1
            vec![1],
            // 1
            vec![1],
            // 0
            vec![0],
            // 2ul
            vec![2, 0, 0, 0, 0, 0, 0, 0],
            // 0
            vec![0],
            // 0
            vec![0],
            // 0
            vec![0],
            // 0
            vec![0],
            // 0
            vec![0],
            // 0
            vec![0],
            // 0
            vec![0, 0, 0, 0],
            // 0
            vec![0],
            // 0
            vec![0, 0, 0, 0],
            // 0
            vec![0],
        ];
        kani::concrete_playback_run(concrete_vals, q_c04_service_subscribe_event);
    }

    /// Test generated for harness `broker::service::verif::harnesses::q_c04_service_subscribe_event`
    ///
    /// Check for `assertion`: ""owner is told to start exactly on the 0 -> 1 transition""

    #[test]
    fn kani_concrete_playback_q_c04_service_subscribe_event_11295437206244803645() {
        let concrete_vals: Vec<Vec<u8>> = vec![
            // 1
            vec![1],
            // 1
            vec![1],
            // 0
            vec![0],
            // 0
            vec![0],
            // 0
            vec![0],
            // 0ul
            vec![0, 0, 0, 0, 0, 0, 0, 0],
            // 1
            vec![1],
            // 1
            vec![1],
            // 0
            vec![0],
            // 0
            vec![0],
            // 0
            vec![0],
            // 1ul
            vec![1, 0, 0, 0, 0, 0, 0, 0],
            // 0
            vec![0],
            // 0
            vec![0],
            // 0
            vec![0],
            // 0
            vec![0],
            // 0
            vec![0],
            // 0
            vec![0],
            // 1
            vec![1, 0, 0, 0],
            // 0
            vec![0],
            // 0
            vec![0, 0, 0, 0],
            // 0
            vec![0],
        ];
        kani::concrete_playback_run(concrete_vals, q_c04_service_subscribe_event);
    }

    /// Test generated for harness `broker::service::verif::harnesses::q_c04_service_subscribe_event`
    ///
    /// Check for `assertion`: "assertion failed: is_sub(&s, e, t)"

    #[test]
    fn kani_concrete_playback_q_c04_service_subscribe_event_7743258759722989876() {
        let concrete_vals: Vec<Vec<u8>> = vec![
            // 1
            vec![1],
            // 0
            vec![0],
            // 0
            vec![0],
            // 1
            vec![1],
            // 0
            vec![0],
            // 0ul
            vec![0, 0, 0, 0, 0, 0, 0, 0],
            // 1
            vec![1],
            // 0
            vec![0],
            // 0
            vec![0],
            // 1
            vec![1],
            // 0
            vec![0],
            // 1ul
            vec![1, 0, 0, 0, 0, 0, 0, 0],
            // 0
            vec![0],
            // 0
            vec![0],
            // 0
            vec![0],
            // 0
            vec![0],
            // 0
            vec![0],
            // 0
            vec![0],
            // 1
            vec![1, 0, 0, 0],
            // 2
            vec![2],
            // 0
            vec![0, 0, 0, 0],
            // 0
            vec![0],
        ];
        kani::concrete_playback_run(concrete_vals, q_c04_service_subscribe_event);
    }

    /// Test generated for harness `broker::service::verif::harnesses::q_c04_service_subscribe_event`
    ///
    /// Check for `assertion`: "assertion failed: subscribers(&s, e) == if was_sub { n0 } else { n0 + 1 }"

    #[test]
    fn kani_concrete_playback_q_c04_service_subscribe_event_2633234007369297202() {
        let concrete_vals: Vec<Vec<u8>> = vec![
            // 1
            vec![1],
            // 0
            vec![0],
            // 0
            vec![0],
            // 1
            vec![1],
            // 0
            vec![0],
            // 2ul
            vec![2, 0, 0, 0, 0, 0, 0, 0],
            // 0
            vec![0],
            // 0
            vec![0],
            // 0
            vec![0],
            // 0
            vec![0],
            // 0
            vec![0],
            // 0
            vec![0],
            // 0
            vec![0],
            // 0
            vec![0, 0, 0, 0],
            // 1
            vec![1],
            // 0
            vec![0, 0, 0, 0],
            // 0
            vec![0],
        ];
        kani::concrete_playback_run(concrete_vals, q_c04_service_subscribe_event);
    }

    /// Test generated for harness `broker::service::verif::harnesses::q_c04_service_subscribe_event`
    ///
    /// Check for `assertion`: ""other subscriptions untouched""

    #[test]
    fn kani_concrete_playback_q_c04_service_subscribe_event_10071350095546632255() {
        let concrete_vals: Vec<Vec<u8>> = vec![
            // 1
            vec![1],
            // 0
            vec![0],
            // 1
            vec![1],
            // 2
            vec![2],
            // 1
            vec![1],
            // 1
            vec![1],
            // 2ul
            vec![2, 0, 0, 0, 0, 0, 0, 0],
            // 1
            vec![1],
            // 1
            vec![1],
            // 0
            vec![0],
            // 0
            vec![0],
            // 0
            vec![0],
            // 1ul
            vec![1, 0, 0, 0, 0, 0, 0, 0],
            // 0
            vec![0],
            // 0
            vec![0],
            // 0
            vec![0],
            // 0
            vec![0],
            // 0
            vec![0],
            // 0
            vec![0],
            // 1
            vec![1, 0, 0, 0],
            // 1
            vec![1],
            // 0
            vec![0, 0, 0, 0],
            // 0
            vec![0],
        ];
        kani::concrete_playback_run(concrete_vals, q_c04_service_subscribe_event);
    }

    /// Test generated for harness `broker::service::verif::harnesses::q_c04_service_subscribe_event`
    ///
    /// Check for `assertion`: "assertion failed: inv_no_empty_sets(&s)"

    #[test]
    fn kani_concrete_playback_q_c04_service_subscribe_event_17910972358117789329() {
        let concrete_vals: Vec<Vec<u8>> = vec![
            // 0
            vec![0],
            // 1
            vec![1],
            // 1
            vec![1],
            // 1
            vec![1],
            // 0
            vec![0],
            // 0
            vec![0],
            // 0ul
            vec![0, 0, 0, 0, 0, 0, 0, 0],
            // 1
            vec![1],
            // 1
            vec![1],
            // 0
            vec![0],
            // 1
            vec![1],
            // 0
            vec![0],
            // 1
            vec![1],
            // 0
            vec![0],
            // 1
            vec![1],
            // 2
            vec![2],
            // 0
            vec![0],
            // 0
            vec![0, 0, 0, 0],
            // 2
            vec![2],
            // 0
            vec![0, 0, 0, 0],
            // 2
            vec![2],
        ];
        kani::concrete_playback_run(concrete_vals, q_c04_service_subscribe_event);
    }

    /// Test generated for harness `broker::service::verif::harnesses::q_c04_service_subscribe_event`
    ///
    /// Check for `cover`: "cover condition: first"

    #[test]
    fn kani_concrete_playback_q_c04_service_subscribe_event_7018522345253706628() {
        let concrete_vals: Vec<Vec<u8>> = vec![
            // 0
            vec![0],
            // 1
            vec![1],
            // 1
            vec![1],
            // 1
            vec![1],
            // 1
            vec![1],
            // 0
            vec![0],
            // 0
            vec![0],
            // 0ul
            vec![0, 0, 0, 0, 0, 0, 0, 0],
            // 1
            vec![1],
            // 2
            vec![2],
            // 0
            vec![0],
            // 1
            vec![1],
            // 0
            vec![0],
            // 1
            vec![1],
            // 0
            vec![0],
            // 1
            vec![1],
            // 2
            vec![2],
            // 0
            vec![0],
            // 0
            vec![0, 0, 0, 0],
            // 1
            vec![1],
            // 0
            vec![0, 0, 0, 0],
            // 2
            vec![2],
        ];
        kani::concrete_playback_run(concrete_vals, q_c04_service_subscribe_event);
    }

    /// Test generated for harness `broker::service::verif::harnesses::q_c04_service_subscribe_event`
    ///
    /// Check for `cover`: "cover condition: !first && !was_sub"

    #[test]
    fn kani_concrete_playback_q_c04_service_subscribe_event_10071350095546632255() {
        let concrete_vals: Vec<Vec<u8>> = vec![
            // 1
            vec![1],
            // 0
            vec![0],
            // 1
            vec![1],
            // 2
            vec![2],
            // 1
            vec![1],
            // 1
            vec![1],
            // 2ul
            vec![2, 0, 0, 0, 0, 0, 0, 0],
            // 1
            vec![1],
            // 1
            vec![1],
            // 0
            vec![0],
            // 0
            vec![0],
            // 0
            vec![0],
            // 1ul
            vec![1, 0, 0, 0, 0, 0, 0, 0],
            // 0
            vec![0],
            // 0
            vec![0],
            // 0
            vec![0],
            // 0
            vec![0],
            // 0
            vec![0],
            // 0
            vec![0],
            // 1
            vec![1, 0, 0, 0],
            // 1
            vec![1],
            // 0
            vec![0, 0, 0, 0],
            // 0
            vec![0],
        ];
        kani::concrete_playback_run(concrete_vals, q_c04_service_subscribe_event);
    }

    /// Test generated for harness `broker::service::verif::harnesses::q_c04_service_subscribe_event`
    ///
    /// Check for `unreachable`: "unreachable code"

    #[test]
    fn kani_concrete_playback_q_c04_service_subscribe_event_11471835599139586231() {
        let concrete_vals: Vec<Vec<u8>> = vec![
        // 1
        vec![1],
        // 1
        vec![1],
        // 0
        vec![0],
        // 1
        vec![1],
        // 2
        vec![2],
        // 0
        vec![0],
        // 0ul
        vec![0, 0, 0, 0, 0, 0, 0, 0],
        // 1
        vec![1],
        // 1
        vec![1],
        // 2
        vec![2],
        // 0
        vec![0],
        // 0
        vec![0],
        // 1ul
        vec![1, 0, 0, 0, 0, 0, 0, 0],
        // 0
        vec![0],
        // 0
        vec![0],
        // 0
        vec![0],
        // 0
        vec![0],
        // 0
        vec![0],
        // 0
        vec![0],
        // 1
        vec![1, 0, 0, 0],
        // 1
        vec![1],
        // 0
        vec![0, 0, 0, 0],
        // 0
        vec![0],
    ];
    kani::concrete_playback_run(concrete_vals, q_c04_service_subscribe_event);
}

#[test]
    fn kani_concrete_playback_q_c04_service_subscribe_event_11295437206244803645() {
        let concrete_vals: Vec<Vec<u8>> = vec![
            // 1
            vec![1],
            // 1
            vec![1],
            // 0
            vec![0],
            // 0
            vec![0],
            // 0
            vec![0],
            // 0ul
            vec![0, 0, 0, 0, 0, 0, 0, 0],
            // 1
            vec![1],
            // 1
            vec![1],
            // 0
            vec![0],
            // 0
            vec![0],
            // 0
            vec![0],
            // 1ul
            vec![1, 0, 0, 0, 0, 0, 0, 0],
            // 0
            vec![0],
            // 0
            vec![0],
            // 0
            vec![0],
            // 0
            vec![0],
            // 0
            vec![0],
            // 0
            vec![0],
            // 1
            vec![1, 0, 0, 0],
            // 0
            vec![0],
            // 0
            vec![0, 0, 0, 0],
            // 0
            vec![0],
        ];
        kani::concrete_playback_run(concrete_vals, q_c04_service_subscribe_event);
    }

    /// Test generated for harness `broker::service::verif::harnesses::q_c04_service_subscribe_event`
    ///
    /// Check for `assertion`: "assertion failed: is_sub(&s, e, t)"

    #[test]
    fn kani_concrete_playback_q_c04_service_subscribe_event_7743258759722989876() {
        let concrete_vals: Vec<Vec<u8>> = vec![
            // 1
            vec![1],
            // 0
            vec![0],
            // 0
            vec![0],
            // 1
            vec![1],
            // 0
            vec![0],
            // 0ul
            vec![0, 0, 0, 0, 0, 0, 0, 0],
            // 1
            vec![1],
            // 0
            vec![0],
            // 0
            vec![0],
            // 1
            vec![1],
            // 0
            vec![0],
            // 1ul
            vec![1, 0, 0, 0, 0, 0, 0, 0],
            // 0
            vec![0],
            // 0
            vec![0],
            // 0
            vec![0],
            // 0
            vec![0],
            // 0
            vec![0],
            // 0
            vec![0],
            // 1
            vec![1, 0, 0, 0],
            // 2
            vec![2],
            // 0
            vec![0, 0, 0, 0],
            // 0
            vec![0],
        ];
        kani::concrete_playback_run(concrete_vals, q_c04_service_subscribe_event);
    }

    /// Test generated for harness `broker::service::verif::harnesses::q_c04_service_subscribe_event`
    ///
    /// Check for `assertion`: "assertion failed: subscribers(&s, e) == if was_sub { n0 } else { n0 + 1 }"

    #[test]
    fn kani_concrete_playback_q_c04_service_subscribe_event_2633234007369297202() {
        let concrete_vals: Vec<Vec<u8>> = vec![
            // 1
            vec![1],
            // 0
            vec![0],
            // 0
            vec![0],
            // 1
            vec![1],
            // 0
            vec![0],
            // 2ul
            vec![2, 0, 0, 0, 0, 0, 0, 0],
            // 0
            vec![0],
            // 0
            vec![0],
            // 0
            vec![0],
            // 0
            vec![0],
            // 0
            vec![0],
            // 0
            vec![0],
            // 0
            vec![0],
            // 0
            vec![0, 0, 0, 0],
            // 1
            vec![1],
            // 0
            vec![0, 0, 0, 0],
            // 0
            vec![0],
        ];
        kani::concrete_playback_run(concrete_vals, q_c04_service_subscribe_event);
    }

    /// Test generated for harness `broker::service::verif::harnesses::q_c04_service_subscribe_event`
    ///
    /// Check for `assertion`: ""other subscriptions untouched""

    #[test]
    fn kani_concrete_playback_q_c04_service_subscribe_event_10071350095546632255() {
        let concrete_vals: Vec<Vec<u8>> = vec![
            // 1
            vec![1],
            // 0
            vec![0],
            // 1
            vec![1],
            // 2
            vec![2],
            // 1
            vec![1],
            // 1
            vec![1],
            // 2ul
            vec![2, 0, 0, 0, 0, 0, 0, 0],
            // 1
            vec![1],
            // 1
            vec![1],
            // 0
            vec![0],
            // 0
            vec![0],
            // 0
            vec![0],
            // 1ul
            vec![1, 0, 0, 0, 0, 0, 0, 0],
            // 0
            vec![0],
            // 0
            vec![0],
            // 0
            vec![0],
            // 0
            vec![0],
            // 0
            vec![0],
            // 0
            vec![0],
            // 1
            vec![1, 0, 0, 0],
            // 1
            vec![1],
            // 0
            vec![0, 0, 0, 0],
            // 0
            vec![0],
        ];
        kani::concrete_playback_run(concrete_vals, q_c04_service_subscribe_event);
    }

    /// Test generated for harness `broker::service::verif::harnesses::q_c04_service_subscribe_event`
    ///
    /// Check for `assertion`: "assertion failed: inv_no_empty_sets(&s)"

    #[test]
    fn kani_concrete_playback_q_c04_service_subscribe_event_17910972358117789329() {
        let concrete_vals: Vec<Vec<u8>> = vec![
            // 0
            vec![0],
            // 1
            vec![1],
            // 1
            vec![1],
            // 1
            vec![1],
            // 0
            vec![0],
            // 0
            vec![0],
            // 0ul
            vec![0, 0, 0, 0, 0, 0, 0, 0],
            // 1
            vec![1],
            // 1
            vec![1],
            // 0
            vec![0],
            // 1
            vec![1],
            // 0
            vec![0],
            // 1
            vec![1],
            // 0
            vec![0],
            // 1
            vec![1],
            // 2
            vec![2],
            // 0
            vec![0],
            // 0
            vec![0, 0, 0, 0],
            // 2
            vec![2],
            // 0
            vec![0, 0, 0, 0],
            // 2
            vec![2],
        ];
        kani::concrete_playback_run(concrete_vals, q_c04_service_subscribe_event);
    }

    /// Test generated for harness `broker::service::verif::harnesses::q_c04_service_subscribe_event`
    ///
    /// Check for `cover`: "cover condition: first"

    #[test]
    fn kani_concrete_playback_q_c04_service_subscribe_event_7018522345253706628() {
        let concrete_vals: Vec<Vec<u8>> = vec![
            // 0
            vec![0],
            // 1
            vec![1],
            // 1
            vec![1],
            // 1
            vec![1],
            // 1
            vec![1],
            // 0
            vec![0],
            // 0
            vec![0],
            // 0ul
            vec![0, 0, 0, 0, 0, 0, 0, 0],
            // 1
            vec![1],
            // 2
            vec![2],
            // 0
            vec![0],
            // 1
            vec![1],
            // 0
            vec![0],
            // 1
            vec![1],
            // 0
            vec![0],
            // 1
            vec![1],
            // 2
            vec![2],
            // 0
            vec![0],
            // 0
            vec![0, 0, 0, 0],
            // 1
            vec![1],
            // 0
            vec![0, 0, 0, 0],
            // 2
            vec![2],
        ];
        kani::concrete_playback_run(concrete_vals, q_c04_service_subscribe_event);
    }

    /// Test generated for harness `broker::service::verif::harnesses::q_c04_service_subscribe_event`
    ///
    /// Check for `cover`: "cover condition: !first && !was_sub"

    #[test]
    fn kani_concrete_playback_q_c04_service_subscribe_event_10071350095546632255() {
        let concrete_vals: Vec<Vec<u8>> = vec![
            // 1
            vec![1],
            // 0
            vec![0],
            // 1
            vec![1],
            // 2
            vec![2],
            // 1
            vec![1],
            // 1
            vec![1],
            // 2ul
            vec![2, 0, 0, 0, 0, 0, 0, 0],
            // 1
            vec![1],
            // 1
            vec![1],
            // 0
            vec![0],
            // 0
            vec![0],
            // 0
            vec![0],
            // 1ul
            vec![1, 0, 0, 0, 0, 0, 0, 0],
            // 0
            vec![0],
            // 0
            vec![0],
            // 0
            vec![0],
            // 0
            vec![0],
            // 0
            vec![0],
            // 0
            vec![0],
            // 1
            vec![1, 0, 0, 0],
            // 1
            vec![1],
            // 0
            vec![0, 0, 0, 0],
            // 0
            vec![0],
        ];
        kani::concrete_playback_run(concrete_vals, q_c04_service_subscribe_event);
    }

    /// Test generated for harness `broker::service::verif::harnesses::q_c04_service_subscribe_event`
    ///
    /// Check for `unreachable`: "unreachable code"

    #[test]
    fn kani_concrete_playback_q_c04_service_subscribe_event_11471835599139586231() {
        let concrete_vals: Vec<Vec<u8>> = vec![
        // 1
        vec![1],
        // 1
        vec![1],
        // 0
        vec![0],
        // 1
        vec![1],
        // 2
        vec![2],
        // 0
        vec![0],
        // 0ul
        vec![0, 0, 0, 0, 0, 0, 0, 0],
        // 1
        vec![1],
        // 1
        vec![1],
        // 2
        vec![2],
        // 0
        vec![0],
        // 0
        vec![0],
        // 1ul
        vec![1, 0, 0, 0, 0, 0, 0, 0],
        // 0
        vec![0],
        // 0
        vec![0],
        // 0
        vec![0],
        // 0
        vec![0],
        // 0
        vec![0],
        // 0
        vec![0],
        // 1
        vec![1, 0, 0, 0],
        // 1
        vec![1],
        // 0
        vec![0, 0, 0, 0],
        // 0
        vec![0],
    ];
    kani::concrete_playback_run(concrete_vals, q_c04_service_subscribe_event);
}

#[test]
    fn kani_concrete_playback_q_c04_service_subscribe_event_7743258759722989876() {
        let concrete_vals: Vec<Vec<u8>> = vec![
            // 1
            vec![1],
            // 0
            vec![0],
            // 0
            vec![0],
            // 1
            vec![1],
            // 0
            vec![0],
            // 0ul
            vec![0, 0, 0, 0, 0, 0, 0, 0],
            // 1
            vec![1],
            // 0
            vec![0],
            // 0
            vec![0],
            // 1
            vec![1],
            // 0
            vec![0],
            // 1ul
            vec![1, 0, 0, 0, 0, 0, 0, 0],
            // 0
            vec![0],
            // 0
            vec![0],
            // 0
            vec![0],
            // 0
            vec![0],
            // 0
            vec![0],
            // 0
            vec![0],
            // 1
            vec![1, 0, 0, 0],
            // 2
            vec![2],
            // 0
            vec![0, 0, 0, 0],
            // 0
            vec![0],
        ];
        kani::concrete_playback_run(concrete_vals, q_c04_service_subscribe_event);
    }

    /// Test generated for harness `broker::service::verif::harnesses::q_c04_service_subscribe_event`
    ///
    /// Check for `assertion`: "assertion failed: subscribers(&s, e) == if was_sub { n0 } else { n0 + 1 }"

    #[test]
    fn kani_concrete_playback_q_c04_service_subscribe_event_2633234007369297202() {
        let concrete_vals: Vec<Vec<u8>> = vec![
            // 1
            vec![1],
            // 0
            vec![0],
            // 0
            vec![0],
            // 1
            vec![1],
            // 0
            vec![0],
            // 2ul
            vec![2, 0, 0, 0, 0, 0, 0, 0],
            // 0
            vec![0],
            // 0
            vec![0],
            // 0
            vec![0],
            // 0
            vec![0],
            // 0
            vec![0],
            // 0
            vec![0],
            // 0
            vec![0],
            // 0
            vec![0, 0, 0, 0],
            // 1
            vec![1],
            // 0
            vec![0, 0, 0, 0],
            // 0
            vec![0],
        ];
        kani::concrete_playback_run(concrete_vals, q_c04_service_subscribe_event);
    }

    /// Test generated for harness `broker::service::verif::harnesses::q_c04_service_subscribe_event`
    ///
    /// Check for `assertion`: ""other subscriptions untouched""

    #[test]
    fn kani_concrete_playback_q_c04_service_subscribe_event_10071350095546632255() {
        let concrete_vals: Vec<Vec<u8>> = vec![
            // 1
            vec![1],
            // 0
            vec![0],
            // 1
            vec![1],
            // 2
            vec![2],
            // 1
            vec![1],
            // 1
            vec![1],
            // 2ul
            vec![2, 0, 0, 0, 0, 0, 0, 0],
            // 1
            vec![1],
            // 1
            vec![1],
            // 0
            vec![0],
            // 0
            vec![0],
            // 0
            vec![0],
            // 1ul
            vec![1, 0, 0, 0, 0, 0, 0, 0],
            // 0
            vec![0],
            // 0
            vec![0],
            // 0
            vec![0],
            // 0
            vec![0],
            // 0
            vec![0],
            // 0
            vec![0],
            // 1
            vec![1, 0, 0, 0],
            // 1
            vec![1],
            // 0
            vec![0, 0, 0, 0],
            // 0
            vec![0],
        ];
        kani::concrete_playback_run(concrete_vals, q_c04_service_subscribe_event);
    }

    /// Test generated for harness `broker::service::verif::harnesses::q_c04_service_subscribe_event`
    ///
    /// Check for `assertion`: "assertion failed: inv_no_empty_sets(&s)"

    #[test]
    fn kani_concrete_playback_q_c04_service_subscribe_event_17910972358117789329() {
        let concrete_vals: Vec<Vec<u8>> = vec![
            // 0
            vec![0],
            // 1
            vec![1],
            // 1
            vec![1],
            // 1
            vec![1],
            // 0
            vec![0],
            // 0
            vec![0],
            // 0ul
            vec![0, 0, 0, 0, 0, 0, 0, 0],
            // 1
            vec![1],
            // 1
            vec![1],
            // 0
            vec![0],
            // 1
            vec![1],
            // 0
            vec![0],
            // 1
            vec![1],
            // 0
            vec![0],
            // 1
            vec![1],
            // 2
            vec![2],
            // 0
            vec![0],
            // 0
            vec![0, 0, 0, 0],
            // 2
            vec![2],
            // 0
            vec![0, 0, 0, 0],
            // 2
            vec![2],
        ];
        kani::concrete_playback_run(concrete_vals, q_c04_service_subscribe_event);
    }

    /// Test generated for harness `broker::service::verif::harnesses::q_c04_service_subscribe_event`
    ///
    /// Check for `cover`: "cover condition: first"

    #[test]
    fn kani_concrete_playback_q_c04_service_subscribe_event_7018522345253706628() {
        let concrete_vals: Vec<Vec<u8>> = vec![
            // 0
            vec![0],
            // 1
            vec![1],
            // 1
            vec![1],
            // 1
            vec![1],
            // 1
            vec![1],
            // 0
            vec![0],
            // 0
            vec![0],
            // 0ul
            vec![0, 0, 0, 0, 0, 0, 0, 0],
            // 1
            vec![1],
            // 2
            vec![2],
            // 0
            vec![0],
            // 1
            vec![1],
            // 0
            vec![0],
            // 1
            vec![1],
            // 0
            vec![0],
            // 1
            vec![1],
            // 2
            vec![2],
            // 0
            vec![0],
            // 0
            vec![0, 0, 0, 0],
            // 1
            vec![1],
            // 0
            vec![0, 0, 0, 0],
            // 2
            vec![2],
        ];
        kani::concrete_playback_run(concrete_vals, q_c04_service_subscribe_event);
    }

    /// Test generated for harness `broker::service::verif::harnesses::q_c04_service_subscribe_event`
    ///
    /// Check for `cover`: "cover condition: !first && !was_sub"

    #[test]
    fn kani_concrete_playback_q_c04_service_subscribe_event_10071350095546632255() {
        let concrete_vals: Vec<Vec<u8>> = vec![
            // 1
            vec![1],
            // 0
            vec![0],
            // 1
            vec![1],
            // 2
            vec![2],
            // 1
            vec![1],
            // 1
            vec![1],
            // 2ul
            vec![2, 0, 0, 0, 0, 0, 0, 0],
            // 1
            vec![1],
            // 1
            vec![1],
            // 0
            vec![0],
            // 0
            vec![0],
            // 0
            vec![0],
            // 1ul
            vec![1, 0, 0, 0, 0, 0, 0, 0],
            // 0
            vec![0],
            // 0
            vec![0],
            // 0
            vec![0],
            // 0
            vec![0],
            // 0
            vec![0],
            // 0
            vec![0],
            // 1
            vec![1, 0, 0, 0],
            // 1
            vec![1],
            // 0
            vec![0, 0, 0, 0],
            // 0
            vec![0],
        ];
        kani::concrete_playback_run(concrete_vals, q_c04_service_subscribe_event);
    }

    /// Test generated for harness `broker::service::verif::harnesses::q_c04_service_subscribe_event`
    ///
    /// Check for `unreachable`: "unreachable code"

    #[test]
    fn kani_concrete_playback_q_c04_service_subscribe_event_11471835599139586231() {
        let concrete_vals: Vec<Vec<u8>> = vec![
        // 1
        vec![1],
        // 1
        vec![1],
        // 0
        vec![0],
        // 1
        vec![1],
        // 2
        vec![2],
        // 0
        vec![0],
        // 0ul
        vec![0, 0, 0, 0, 0, 0, 0, 0],
        // 1
        vec![1],
        // 1
        vec![1],
        // 2
        vec![2],
        // 0
        vec![0],
        // 0
        vec![0],
        // 1ul
        vec![1, 0, 0, 0, 0, 0, 0, 0],
        // 0
        vec![0],
        // 0
        vec![0],
        // 0
        vec![0],
        // 0
        vec![0],
        // 0
        vec![0],
        // 0
        vec![0],
        // 1
        vec![1, 0, 0, 0],
        // 1
        vec![1],
        // 0
        vec![0, 0, 0, 0],
        // 0
        vec![0],
    ];
    kani::concrete_playback_run(concrete_vals, q_c04_service_subscribe_event);
}

#[test]
    fn kani_concrete_playback_q_c04_service_subscribe_event_2633234007369297202() {
        let concrete_vals: Vec<Vec<u8>> = vec![
            // 1
            vec![1],
            // 0
            vec![0],
            // 0
            vec![0],
            // 1
            vec![1],
            // 0
            vec![0],
            // 2ul
            vec![2, 0, 0, 0, 0, 0, 0, 0],
            // 0
            vec![0],
            // 0
            vec![0],
            // 0
            vec![0],
            // 0
            vec![0],
            // 0
            vec![0],
            // 0
            vec![0],
            // 0
            vec![0],
            // 0
            vec![0, 0, 0, 0],
            // 1
            vec![1],
            // 0
            vec![0, 0, 0, 0],
            // 0
            vec![0],
        ];
        kani::concrete_playback_run(concrete_vals, q_c04_service_subscribe_event);
    }

    /// Test generated for harness `broker::service::verif::harnesses::q_c04_service_subscribe_event`
    ///
    /// Check for `assertion`: ""other subscriptions untouched""

    #[test]
    fn kani_concrete_playback_q_c04_service_subscribe_event_10071350095546632255() {
        let concrete_vals: Vec<Vec<u8>> = vec![
            // 1
            vec![1],
            // 0
            vec![0],
            // 1
            vec![1],
            // 2
            vec![2],
            // 1
            vec![1],
            // 1
            vec![1],
            // 2ul
            vec![2, 0, 0, 0, 0, 0, 0, 0],
            // 1
            vec![1],
            // 1
            vec![1],
            // 0
            vec![0],
            // 0
            vec![0],
            // 0
            vec![0],
            // 1ul
            vec![1, 0, 0, 0, 0, 0, 0, 0],
            // 0
            vec![0],
            // 0
            vec![0],
            // 0
            vec![0],
            // 0
            vec![0],
            // 0
            vec![0],
            // 0
            vec![0],
            // 1
            vec![1, 0, 0, 0],
            // 1
            vec![1],
            // 0
            vec![0, 0, 0, 0],
            // 0
            vec![0],
        ];
        kani::concrete_playback_run(concrete_vals, q_c04_service_subscribe_event);
    }

    /// Test generated for harness `broker::service::verif::harnesses::q_c04_service_subscribe_event`
    ///
    /// Check for `assertion`: "assertion failed: inv_no_empty_sets(&s)"

    #[test]
    fn kani_concrete_playback_q_c04_service_subscribe_event_17910972358117789329() {
        let concrete_vals: Vec<Vec<u8>> = vec![
            // 0
            vec![0],
            // 1
            vec![1],
            // 1
            vec![1],
            // 1
            vec![1],
            // 0
            vec![0],
            // 0
            vec![0],
            // 0ul
            vec![0, 0, 0, 0, 0, 0, 0, 0],
            // 1
            vec![1],
            // 1
            vec![1],
            // 0
            vec![0],
            // 1
            vec![1],
            // 0
            vec![0],
            // 1
            vec![1],
            // 0
            vec![0],
            // 1
            vec![1],
            // 2
            vec![2],
            // 0
            vec![0],
            // 0
            vec![0, 0, 0, 0],
            // 2
            vec![2],
            // 0
            vec![0, 0, 0, 0],
            // 2
            vec![2],
        ];
        kani::concrete_playback_run(concrete_vals, q_c04_service_subscribe_event);
    }

    /// Test generated for harness `broker::service::verif::harnesses::q_c04_service_subscribe_event`
    ///
    /// Check for `cover`: "cover condition: first"

    #[test]
    fn kani_concrete_playback_q_c04_service_subscribe_event_7018522345253706628() {
        let concrete_vals: Vec<Vec<u8>> = vec![
            // 0
            vec![0],
            // 1
            vec![1],
            // 1
            vec![1],
            // 1
            vec![1],
            // 1
            vec![1],
            // 0
            vec![0],
            // 0
            vec![0],
            // 0ul
            vec![0, 0, 0, 0, 0, 0, 0, 0],
            // 1
            vec![1],
            // 2
            vec![2],
            // 0
            vec![0],
            // 1
            vec![1],
            // 0
            vec![0],
            // 1
            vec![1],
            // 0
            vec![0],
            // 1
            vec![1],
            // 2
            vec![2],
            // 0
            vec![0],
            // 0
            vec![0, 0, 0, 0],
            // 1
            vec![1],
            // 0
            vec![0, 0, 0, 0],
            // 2
            vec![2],
        ];
        kani::concrete_playback_run(concrete_vals, q_c04_service_subscribe_event);
    }

    /// Test generated for harness `broker::service::verif::harnesses::q_c04_service_subscribe_event`
    ///
    /// Check for `cover`: "cover condition: !first && !was_sub"

    #[test]
    fn kani_concrete_playback_q_c04_service_subscribe_event_10071350095546632255() {
        let concrete_vals: Vec<Vec<u8>> = vec![
            // 1
            vec![1],
            // 0
            vec![0],
            // 1
            vec![1],
            // 2
            vec![2],
            // 1
            vec![1],
            // 1
            vec![1],
            // 2ul
            vec![2, 0, 0, 0, 0, 0, 0, 0],
            // 1
            vec![1],
            // 1
            vec![1],
            // 0
            vec![0],
            // 0
            vec![0],
            // 0
            vec![0],
            // 1ul
            vec![1, 0, 0, 0, 0, 0, 0, 0],
            // 0
            vec![0],
            // 0
            vec![0],
            // 0
            vec![0],
            // 0
            vec![0],
            // 0
            vec![0],
            // 0
            vec![0],
            // 1
            vec![1, 0, 0, 0],
            // 1
            vec![1],
            // 0
            vec![0, 0, 0, 0],
            // 0
            vec![0],
        ];
        kani::concrete_playback_run(concrete_vals, q_c04_service_subscribe_event);
    }

    /// Test generated for harness `broker::service::verif::harnesses::q_c04_service_subscribe_event`
    ///
    /// Check for `unreachable`: "unreachable code"

    #[test]
    fn kani_concrete_playback_q_c04_service_subscribe_event_11471835599139586231() {
        let concrete_vals: Vec<Vec<u8>> = vec![
        // 1
        vec![1],
        // 1
        vec![1],
        // 0
        vec![0],
        // 1
        vec![1],
        // 2
        vec![2],
        // 0
        vec![0],
        // 0ul
        vec![0, 0, 0, 0, 0, 0, 0, 0],
        // 1
        vec![1],
        // 1
        vec![1],
        // 2
        vec![2],
        // 0
        vec![0],
        // 0
        vec![0],
        // 1ul
        vec![1, 0, 0, 0, 0, 0, 0, 0],
        // 0
        vec![0],
        // 0
        vec![0],
        // 0
        vec![0],
        // 0
        vec![0],
        // 0
        vec![0],
        // 0
        vec![0],
        // 1
        vec![1, 0, 0, 0],
        // 1
        vec![1],
        // 0
        vec![0, 0, 0, 0],
        // 0
        vec![0],
    ];
    kani::concrete_playback_run(concrete_vals, q_c04_service_subscribe_event);
}

#[test]
    fn kani_concrete_playback_q_c04_service_subscribe_event_10071350095546632255() {
        let concrete_vals: Vec<Vec<u8>> = vec![
            // 1
            vec![1],
            // 0
            vec![0],
            // 1
            vec![1],
            // 2
            vec![2],
            // 1
            vec![1],
            // 1
            vec![1],
            // 2ul
            vec![2, 0, 0, 0, 0, 0, 0, 0],
            // 1
            vec![1],
            // 1
            vec![1],
            // 0
            vec![0],
            // 0
            vec![0],
            // 0
            vec![0],
            // 1ul
            vec![1, 0, 0, 0, 0, 0, 0, 0],
            // 0
            vec![0],
            // 0
            vec![0],
            // 0
            vec![0],
            // 0
            vec![0],
            // 0
            vec![0],
            // 0
            vec![0],
            // 1
            vec![1, 0, 0, 0],
            // 1
            vec![1],
            // 0
            vec![0, 0, 0, 0],
            // 0
            vec![0],
        ];
        kani::concrete_playback_run(concrete_vals, q_c04_service_subscribe_event);
    }

    /// Test generated for harness `broker::service::verif::harnesses::q_c04_service_subscribe_event`
    ///
    /// Check for `assertion`: "assertion failed: inv_no_empty_sets(&s)"

    #[test]
    fn kani_concrete_playback_q_c04_service_subscribe_event_17910972358117789329() {
        let concrete_vals: Vec<Vec<u8>> = vec![
            // 0
            vec![0],
            // 1
            vec![1],
            // 1
            vec![1],
            // 1
            vec![1],
            // 0
            vec![0],
            // 0
            vec![0],
            // 0ul
            vec![0, 0, 0, 0, 0, 0, 0, 0],
            // 1
            vec![1],
            // 1
            vec![1],
            // 0
            vec![0],
            // 1
            vec![1],
            // 0
            vec![0],
            // 1
            vec![1],
            // 0
            vec![0],
            // 1
            vec![1],
            // 2
            vec![2],
            // 0
            vec![0],
            // 0
            vec![0, 0, 0, 0],
            // 2
            vec![2],
            // 0
            vec![0, 0, 0, 0],
            // 2
            vec![2],
        ];
        kani::concrete_playback_run(concrete_vals, q_c04_service_subscribe_event);
    }

    /// Test generated for harness `broker::service::verif::harnesses::q_c04_service_subscribe_event`
    ///
    /// Check for `cover`: "cover condition: first"

    #[test]
    fn kani_concrete_playback_q_c04_service_subscribe_event_7018522345253706628() {
        let concrete_vals: Vec<Vec<u8>> = vec![
            // 0
            vec![0],
            // 1
            vec![1],
            // 1
            vec![1],
            // 1
            vec![1],
            // 1
            vec![1],
            // 0
            vec![0],
            // 0
            vec![0],
            // 0ul
            vec![0, 0, 0, 0, 0, 0, 0, 0],
            // 1
            vec![1],
            // 2
            vec![2],
            // 0
            vec![0],
            // 1
            vec![1],
            // 0
            vec![0],
            // 1
            vec![1],
            // 0
            vec![0],
            // 1
            vec![1],
            // 2
            vec![2],
            // 0
            vec![0],
            // 0
            vec![0, 0, 0, 0],
            // 1
            vec![1],
            // 0
            vec![0, 0, 0, 0],
            // 2
            vec![2],
        ];
        kani::concrete_playback_run(concrete_vals, q_c04_service_subscribe_event);
    }

    /// Test generated for harness `broker::service::verif::harnesses::q_c04_service_subscribe_event`
    ///
    /// Check for `cover`: "cover condition: !first && !was_sub"

    #[test]
    fn kani_concrete_playback_q_c04_service_subscribe_event_10071350095546632255() {
        let concrete_vals: Vec<Vec<u8>> = vec![
            // 1
            vec![1],
            // 0
            vec![0],
            // 1
            vec![1],
            // 2
            vec![2],
            // 1
            vec![1],
            // 1
            vec![1],
            // 2ul
            vec![2, 0, 0, 0, 0, 0, 0, 0],
            // 1
            vec![1],
            // 1
            vec![1],
            // 0
            vec![0],
            // 0
            vec![0],
            // 0
            vec![0],
            // 1ul
            vec![1, 0, 0, 0, 0, 0, 0, 0],
            // 0
            vec![0],
            // 0
            vec![0],
            // 0
            vec![0],
            // 0
            vec![0],
            // 0
            vec![0],
            // 0
            vec![0],
            // 1
            vec![1, 0, 0, 0],
            // 1
            vec![1],
            // 0
            vec![0, 0, 0, 0],
            // 0
            vec![0],
        ];
        kani::concrete_playback_run(concrete_vals, q_c04_service_subscribe_event);
    }

    /// Test generated for harness `broker::service::verif::harnesses::q_c04_service_subscribe_event`
    ///
    /// Check for `unreachable`: "unreachable code"

    #[test]
    fn kani_concrete_playback_q_c04_service_subscribe_event_11471835599139586231() {
        let concrete_vals: Vec<Vec<u8>> = vec![
        // 1
        vec![1],
        // 1
        vec![1],
        // 0
        vec![0],
        // 1
        vec![1],
        // 2
        vec![2],
        // 0
        vec![0],
        // 0ul
        vec![0, 0, 0, 0, 0, 0, 0, 0],
        // 1
        vec![1],
        // 1
        vec![1],
        // 2
        vec![2],
        // 0
        vec![0],
        // 0
        vec![0],
        // 1ul
        vec![1, 0, 0, 0, 0, 0, 0, 0],
        // 0
        vec![0],
        // 0
        vec![0],
        // 0
        vec![0],
        // 0
        vec![0],
        // 0
        vec![0],
        // 0
        vec![0],
        // 1
        vec![1, 0, 0, 0],
        // 1
        vec![1],
        // 0
        vec![0, 0, 0, 0],
        // 0
        vec![0],
    ];
    kani::concrete_playback_run(concrete_vals, q_c04_service_subscribe_event);
}

#[test]
    fn kani_concrete_playback_q_c04_service_subscribe_event_17910972358117789329() {
        let concrete_vals: Vec<Vec<u8>> = vec![
            // 0
            vec![0],
            // 1
            vec![1],
            // 1
            vec![1],
            // 1
            vec![1],
            // 0
            vec![0],
            // 0
            vec![0],
            // 0ul
            vec![0, 0, 0, 0, 0, 0, 0, 0],
            // 1
            vec![1],
            // 1
            vec![1],
            // 0
            vec![0],
            // 1
            vec![1],
            // 0
            vec![0],
            // 1
            vec![1],
            // 0
            vec![0],
            // 1
            vec![1],
            // 2
            vec![2],
            // 0
            vec![0],
            // 0
            vec![0, 0, 0, 0],
            // 2
            vec![2],
            // 0
            vec![0, 0, 0, 0],
            // 2
            vec![2],
        ];
        kani::concrete_playback_run(concrete_vals, q_c04_service_subscribe_event);
    }

    /// Test generated for harness `broker::service::verif::harnesses::q_c04_service_subscribe_event`
    ///
    /// Check for `cover`: "cover condition: first"

    #[test]
    fn kani_concrete_playback_q_c04_service_subscribe_event_7018522345253706628() {
        let concrete_vals: Vec<Vec<u8>> = vec![
            // 0
            vec![0],
            // 1
            vec![1],
            // 1
            vec![1],
            // 1
            vec![1],
            // 1
            vec![1],
            // 0
            vec![0],
            // 0
            vec![0],
            // 0ul
            vec![0, 0, 0, 0, 0, 0, 0, 0],
            // 1
            vec![1],
            // 2
            vec![2],
            // 0
            vec![0],
            // 1
            vec![1],
            // 0
            vec![0],
            // 1
            vec![1],
            // 0
            vec![0],
            // 1
            vec![1],
            // 2
            vec![2],
            // 0
            vec![0],
            // 0
            vec![0, 0, 0, 0],
            // 1
            vec![1],
            // 0
            vec![0, 0, 0, 0],
            // 2
            vec![2],
        ];
        kani::concrete_playback_run(concrete_vals, q_c04_service_subscribe_event);
    }

    /// Test generated for harness `broker::service::verif::harnesses::q_c04_service_subscribe_event`
    ///
    /// Check for `cover`: "cover condition: !first && !was_sub"

    #[test]
    fn kani_concrete_playback_q_c04_service_subscribe_event_10071350095546632255() {
        let concrete_vals: Vec<Vec<u8>> = vec![
            // 1
            vec![1],
            // 0
            vec![0],
            // 1
            vec![1],
            // 2
            vec![2],
            // 1
            vec![1],
            // 1
            vec![1],
            // 2ul
            vec![2, 0, 0, 0, 0, 0, 0, 0],
            // 1
            vec![1],
            // 1
            vec![1],
            // 0
            vec![0],
            // 0
            vec![0],
            // 0
            vec![0],
            // 1ul
            vec![1, 0, 0, 0, 0, 0, 0, 0],
            // 0
            vec![0],
            // 0
            vec![0],
            // 0
            vec![0],
            // 0
            vec![0],
            // 0
            vec![0],
            // 0
            vec![0],
            // 1
            vec![1, 0, 0, 0],
            // 1
            vec![1],
            // 0
            vec![0, 0, 0, 0],
            // 0
            vec![0],
        ];
        kani::concrete_playback_run(concrete_vals, q_c04_service_subscribe_event);
    }

    /// Test generated for harness `broker::service::verif::harnesses::q_c04_service_subscribe_event`
    ///
    /// Check for `unreachable`: "unreachable code"

    #[test]
    fn kani_concrete_playback_q_c04_service_subscribe_event_11471835599139586231() {
        let concrete_vals: Vec<Vec<u8>> = vec![
        // 1
        vec![1],
        // 1
        vec![1],
        // 0
        vec![0],
        // 1
        vec![1],
        // 2
        vec![2],
        // 0
        vec![0],
        // 0ul
        vec![0, 0, 0, 0, 0, 0, 0, 0],
        // 1
        vec![1],
        // 1
        vec![1],
        // 2
        vec![2],
        // 0
        vec![0],
        // 0
        vec![0],
        // 1ul
        vec![1, 0, 0, 0, 0, 0, 0, 0],
        // 0
        vec![0],
        // 0
        vec![0],
        // 0
        vec![0],
        // 0
        vec![0],
        // 0
        vec![0],
        // 0
        vec![0],
        // 1
        vec![1, 0, 0, 0],
        // 1
        vec![1],
        // 0
        vec![0, 0, 0, 0],
        // 0
        vec![0],
    ];
    kani::concrete_playback_run(concrete_vals, q_c04_service_subscribe_event);
}

#[test]
    fn kani_concrete_playback_q_c04_service_subscribe_event_7018522345253706628() {
        let concrete_vals: Vec<Vec<u8>> = vec![
            // 0
            vec![0],
            // 1
            vec![1],
            // 1
            vec![1],
            // 1
            vec![1],
            // 1
            vec![1],
            // 0
            vec![0],
            // 0
            vec![0],
            // 0ul
            vec![0, 0, 0, 0, 0, 0, 0, 0],
            // 1
            vec![1],
            // 2
            vec![2],
            // 0
            vec![0],
            // 1
            vec![1],
            // 0
            vec![0],
            // 1
            vec![1],
            // 0
            vec![0],
            // 1
            vec![1],
            // 2
            vec![2],
            // 0
            vec![0],
            // 0
            vec![0, 0, 0, 0],
            // 1
            vec![1],
            // 0
            vec![0, 0, 0, 0],
            // 2
            vec![2],
        ];
        kani::concrete_playback_run(concrete_vals, q_c04_service_subscribe_event);
    }

    /// Test generated for harness `broker::service::verif::harnesses::q_c04_service_subscribe_event`
    ///
    /// Check for `cover`: "cover condition: !first && !was_sub"

    #[test]
    fn kani_concrete_playback_q_c04_service_subscribe_event_10071350095546632255() {
        let concrete_vals: Vec<Vec<u8>> = vec![
            // 1
            vec![1],
            // 0
            vec![0],
            // 1
            vec![1],
            // 2
            vec![2],
            // 1
            vec![1],
            // 1
            vec![1],
            // 2ul
            vec![2, 0, 0, 0, 0, 0, 0, 0],
            // 1
            vec![1],
            // 1
            vec![1],
            // 0
            vec![0],
            // 0
            vec![0],
            // 0
            vec![0],
            // 1ul
            vec![1, 0, 0, 0, 0, 0, 0, 0],
            // 0
            vec![0],
            // 0
            vec![0],
            // 0
            vec![0],
            // 0
            vec![0],
            // 0
            vec![0],
            // 0
            vec![0],
            // 1
            vec![1, 0, 0, 0],
            // 1
            vec![1],
            // 0
            vec![0, 0, 0, 0],
            // 0
            vec![0],
        ];
        kani::concrete_playback_run(concrete_vals, q_c04_service_subscribe_event);
    }

    /// Test generated for harness `broker::service::verif::harnesses::q_c04_service_subscribe_event`
    ///
    /// Check for `unreachable`: "unreachable code"

    #[test]
    fn kani_concrete_playback_q_c04_service_subscribe_event_11471835599139586231() {
        let concrete_vals: Vec<Vec<u8>> = vec![
        // 1
        vec![1],
        // 1
        vec![1],
        // 0
        vec![0],
        // 1
        vec![1],
        // 2
        vec![2],
        // 0
        vec![0],
        // 0ul
        vec![0, 0, 0, 0, 0, 0, 0, 0],
        // 1
        vec![1],
        // 1
        vec![1],
        // 2
        vec![2],
        // 0
        vec![0],
        // 0
        vec![0],
        // 1ul
        vec![1, 0, 0, 0, 0, 0, 0, 0],
        // 0
        vec![0],
        // 0
        vec![0],
        // 0
        vec![0],
        // 0
        vec![0],
        // 0
        vec![0],
        // 0
        vec![0],
        // 1
        vec![1, 0, 0, 0],
        // 1
        vec![1],
        // 0
        vec![0, 0, 0, 0],
        // 0
        vec![0],
    ];
    kani::concrete_playback_run(concrete_vals, q_c04_service_subscribe_event);
}

#[test]
    fn kani_concrete_playback_q_c04_service_subscribe_event_10071350095546632255() {
        let concrete_vals: Vec<Vec<u8>> = vec![
            // 1
            vec![1],
            // 0
            vec![0],
            // 1
            vec![1],
            // 2
            vec![2],
            // 1
            vec![1],
            // 1
            vec![1],
            // 2ul
            vec![2, 0, 0, 0, 0, 0, 0, 0],
            // 1
            vec![1],
            // 1
            vec![1],
            // 0
            vec![0],
            // 0
            vec![0],
            // 0
            vec![0],
            // 1ul
            vec![1, 0, 0, 0, 0, 0, 0, 0],
            // 0
            vec![0],
            // 0
            vec![0],
            // 0
            vec![0],
            // 0
            vec![0],
            // 0
            vec![0],
            // 0
            vec![0],
            // 1
            vec![1, 0, 0, 0],
            // 1
            vec![1],
            // 0
            vec![0, 0, 0, 0],
            // 0
            vec![0],
        ];
        kani::concrete_playback_run(concrete_vals, q_c04_service_subscribe_event);
    }

    /// Test generated for harness `broker::service::verif::harnesses::q_c04_service_subscribe_event`
    ///
    /// Check for `assertion`: "assertion failed: inv_no_empty_sets(&s)"

    #[test]
    fn kani_concrete_playback_q_c04_service_subscribe_event_17910972358117789329() {
        let concrete_vals: Vec<Vec<u8>> = vec![
            // 0
            vec![0],
            // 1
            vec![1],
            // 1
            vec![1],
            // 1
            vec![1],
            // 0
            vec![0],
            // 0
            vec![0],
            // 0ul
            vec![0, 0, 0, 0, 0, 0, 0, 0],
            // 1
            vec![1],
            // 1
            vec![1],
            // 0
            vec![0],
            // 1
            vec![1],
            // 0
            vec![0],
            // 1
            vec![1],
            // 0
            vec![0],
            // 1
            vec![1],
            // 2
            vec![2],
            // 0
            vec![0],
            // 0
            vec![0, 0, 0, 0],
            // 2
            vec![2],
            // 0
            vec![0, 0, 0, 0],
            // 2
            vec![2],
        ];
        kani::concrete_playback_run(concrete_vals, q_c04_service_subscribe_event);
    }

    /// Test generated for harness `broker::service::verif::harnesses::q_c04_service_subscribe_event`
    ///
    /// Check for `cover`: "cover condition: first"

    #[test]
    fn kani_concrete_playback_q_c04_service_subscribe_event_7018522345253706628() {
        let concrete_vals: Vec<Vec<u8>> = vec![
            // 0
            vec![0],
            // 1
            vec![1],
            // 1
            vec![1],
            // 1
            vec![1],
            // 1
            vec![1],
            // 0
            vec![0],
            // 0
            vec![0],
            // 0ul
            vec![0, 0, 0, 0, 0, 0, 0, 0],
            // 1
            vec![1],
            // 2
            vec![2],
            // 0
            vec![0],
            // 1
            vec![1],
            // 0
            vec![0],
            // 1
            vec![1],
            // 0
            vec![0],
            // 1
            vec![1],
            // 2
            vec![2],
            // 0
            vec![0],
            // 0
            vec![0, 0, 0, 0],
            // 1
            vec![1],
            // 0
            vec![0, 0, 0, 0],
            // 2
            vec![2],
        ];
        kani::concrete_playback_run(concrete_vals, q_c04_service_subscribe_event);
    }

    /// Test generated for harness `broker::service::verif::harnesses::q_c04_service_subscribe_event`
    ///
    /// Check for `cover`: "cover condition: !first && !was_sub"

    #[test]
    fn kani_concrete_playback_q_c04_service_subscribe_event_10071350095546632255() {
        let concrete_vals: Vec<Vec<u8>> = vec![
            // 1
            vec![1],
            // 0
            vec![0],
            // 1
            vec![1],
            // 2
            vec![2],
            // 1
            vec![1],
            // 1
            vec![1],
            // 2ul
            vec![2, 0, 0, 0, 0, 0, 0, 0],
            // 1
            vec![1],
            // 1
            vec![1],
            // 0
            vec![0],
            // 0
            vec![0],
            // 0
            vec![0],
            // 1ul
            vec![1, 0, 0, 0, 0, 0, 0, 0],
            // 0
            vec![0],
            // 0
            vec![0],
            // 0
            vec![0],
            // 0
            vec![0],
            // 0
            vec![0],
            // 0
            vec![0],
            // 1
            vec![1, 0, 0, 0],
            // 1
            vec![1],
            // 0
            vec![0, 0, 0, 0],
            // 0
            vec![0],
        ];
        kani::concrete_playback_run(concrete_vals, q_c04_service_subscribe_event);
    }

    /// Test generated for harness `broker::service::verif::harnesses::q_c04_service_subscribe_event`
    ///
    /// Check for `unreachable`: "unreachable code"

    #[test]
    fn kani_concrete_playback_q_c04_service_subscribe_event_11471835599139586231() {
        let concrete_vals: Vec<Vec<u8>> = vec![
        // 1
        vec![1],
        // 1
        vec![1],
        // 0
        vec![0],
        // 1
        vec![1],
        // 2
        vec![2],
        // 0
        vec![0],
        // 0ul
        vec![0, 0, 0, 0, 0, 0, 0, 0],
        // 1
        vec![1],
        // 1
        vec![1],
        // 2
        vec![2],
        // 0
        vec![0],
        // 0
        vec![0],
        // 1ul
        vec![1, 0, 0, 0, 0, 0, 0, 0],
        // 0
        vec![0],
        // 0
        vec![0],
        // 0
        vec![0],
        // 0
        vec![0],
        // 0
        vec![0],
        // 0
        vec![0],
        // 1
        vec![1, 0, 0, 0],
        // 1
        vec![1],
        // 0
        vec![0, 0, 0, 0],
        // 0
        vec![0],
    ];
    kani::concrete_playback_run(concrete_vals, q_c04_service_subscribe_event);
}

#[test]
    fn kani_concrete_playback_q_c04_service_subscribe_event_11471835599139586231() {
        let concrete_vals: Vec<Vec<u8>> = vec![
        // 1
        vec![1],
        // 1
        vec![1],
        // 0
        vec![0],
        // 1
        vec![1],
        // 2
        vec![2],
        // 0
        vec![0],
        // 0ul
        vec![0, 0, 0, 0, 0, 0, 0, 0],
        // 1
        vec![1],
        // 1
        vec![1],
        // 2
        vec![2],
        // 0
        vec![0],
        // 0
        vec![0],
        // 1ul
        vec![1, 0, 0, 0, 0, 0, 0, 0],
        // 0
        vec![0],
        // 0
        vec![0],
        // 0
        vec![0],
        // 0
        vec![0],
        // 0
        vec![0],
        // 0
        vec![0],
        // 1
        vec![1, 0, 0, 0],
        // 1
        vec![1],
        // 0
        vec![0, 0, 0, 0],
        // 0
        vec![0],
    ];
    kani::concrete_playback_run(concrete_vals, q_c04_service_subscribe_event);
}
