// Counterexample for property C14, harness verif::packetizer::q_c14_mixed_interfaces
// failed checks: ['"spare capacity is never empty"']
// produced by: RUSTFLAGS='--cfg verif_unit="packetizer" -Zmir-opt-level=3' cargo kani -p aldrin-core --target-dir /verif/.cache/aldrin-core/packetizer -Z unstable-options -Z stubbing --harness-timeout 1800 -j 1 --output-format terse --export-json /verif/.cache/out/replay-C14-aldrin-core-packetizer.json -Z concrete-playback --concrete-playback=print --exact --harness verif::packetizer::q_c14_mixed_interfaces
// replay: ./check C14 --replay replay/C14-packetizer.q_c14_mixed_interfaces.rs
// harness: verif::packetizer::q_c14_mixed_interfaces
// crate: aldrin-core
// unit: packetizer
#[test]
fn kani_concrete_playback_q_c14_mixed_interfaces_6970690615397935888() {
    let concrete_vals: Vec<Vec<u8>> = vec![
        // 0
        vec![0],
        // 0
        vec![0],
    ];
    kani::concrete_playback_run(concrete_vals, q_c14_mixed_interfaces);
}
